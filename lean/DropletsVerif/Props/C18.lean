/-
  C18 — Detection depends on the image only through the documented threshold.
  Theorems about Model/Thresh.lean (exact rational model of the threshold rules, of the Otsu
  optimisation and of the `remove_small` loop).
-/
import DropletsVerif.Model.Thresh
import Mathlib.Tactic
import Mathlib.Algebra.Order.Floor.Ring
import Mathlib.Data.Rat.Floor

namespace DV.C18
open DV.Thresh

/-! ### affine maps of the intensities -/

def aff (a b : Rat) (x : Rat) : Rat := a * x + b

theorem aff_mono {a b : Rat} (ha : 0 < a) : Monotone (aff a b) := by
  intro x y h; unfold aff; nlinarith

theorem foldl_min_map (f : Rat → Rat) (hf : Monotone f) (xs : List Rat) (x : Rat) :
    (xs.map f).foldl min (f x) = f (xs.foldl min x) := by
  induction xs generalizing x with
  | nil => rfl
  | cons y ys ih => simp only [List.map_cons, List.foldl_cons]; rw [← hf.map_min, ih]

theorem foldl_max_map (f : Rat → Rat) (hf : Monotone f) (xs : List Rat) (x : Rat) :
    (xs.map f).foldl max (f x) = f (xs.foldl max x) := by
  induction xs generalizing x with
  | nil => rfl
  | cons y ys ih => simp only [List.map_cons, List.foldl_cons]; rw [← hf.map_max, ih]

theorem minL_aff {a b : Rat} (ha : 0 < a) (xs : List Rat) (hne : xs ≠ []) :
    minL (xs.map (aff a b)) = aff a b (minL xs) := by
  cases xs with
  | nil => exact absurd rfl hne
  | cons x xs => exact foldl_min_map _ (aff_mono ha) xs x

theorem maxL_aff {a b : Rat} (ha : 0 < a) (xs : List Rat) (hne : xs ≠ []) :
    maxL (xs.map (aff a b)) = aff a b (maxL xs) := by
  cases xs with
  | nil => exact absurd rfl hne
  | cons x xs => exact foldl_max_map _ (aff_mono ha) xs x

/-- **'extrema'/'auto' commute with positive affine maps** -/
theorem extrema_affine {a b : Rat} (ha : 0 < a) (xs : List Rat) (hne : xs ≠ []) :
    extrema (xs.map (aff a b)) = aff a b (extrema xs) := by
  unfold extrema
  rw [minL_aff ha xs hne, maxL_aff ha xs hne]
  unfold aff; ring

theorem sum_map_aff (a b : Rat) (xs : List Rat) :
    (xs.map (aff a b)).sum = a * xs.sum + b * (xs.length : Rat) := by
  induction xs with
  | nil => simp
  | cons x xs ih => simp only [List.map_cons, List.sum_cons, List.length_cons, ih, aff]; push_cast; ring

/-- **'mean' commutes with affine maps** -/
theorem mean_affine (a b : Rat) (xs : List Rat) (hne : xs ≠ []) :
    mean (xs.map (aff a b)) = aff a b (mean xs) := by
  unfold mean
  have hlen : (xs.length : Rat) ≠ 0 := by
    have : 0 < xs.length := List.length_pos_iff.mpr hne
    exact_mod_cast this.ne'
  rw [sum_map_aff, List.length_map]
  unfold aff
  field_simp

/-- the binary image is unchanged when image and threshold are mapped by the same positive
affine map (strict comparison `data > threshold`) -/
theorem binarize_affine {a b : Rat} (ha : 0 < a) (t : Rat) (xs : List Rat) :
    binarize (aff a b t) (xs.map (aff a b)) = binarize t xs := by
  unfold binarize
  rw [List.map_map]
  apply List.map_congr_left
  intro x _
  simp only [Function.comp, aff]
  have : (a * t + b < a * x + b) ↔ (t < x) := by
    constructor <;> intro h <;> nlinarith
  simp only [this]

/-- **Positive affine changes of the intensities leave the binary image — hence everything
located in it — unchanged**, for the rules 'extrema'/'auto' and 'mean' and for a numeric
threshold mapped the same way. -/
theorem threshold_affine {a b : Rat} (ha : 0 < a) (xs : List Rat) (hne : xs ≠ []) (t : Rat) :
    binarize (thresholdOf .extrema (xs.map (aff a b))) (xs.map (aff a b)) = binarize (thresholdOf .extrema xs) xs ∧
    binarize (thresholdOf .mean (xs.map (aff a b))) (xs.map (aff a b)) = binarize (thresholdOf .mean xs) xs ∧
    binarize (thresholdOf (.value (aff a b t)) (xs.map (aff a b))) (xs.map (aff a b)) =
      binarize (thresholdOf (.value t) xs) xs := by
  refine ⟨?_, ?_, ?_⟩
  · simp only [thresholdOf]; rw [extrema_affine ha xs hne, binarize_affine ha]
  · simp only [thresholdOf]; rw [mean_affine a b xs hne, binarize_affine ha]
  · simp only [thresholdOf]; rw [binarize_affine ha]

/-- the Otsu histogram is invariant: a value falls into the same one of the 256 bins -/
theorem binIdx_affine {a b : Rat} (ha : 0 < a) (lo hi x : Rat) (h : lo < hi) :
    binIdx (aff a b lo) (aff a b hi) (aff a b x) = binIdx lo hi x := by
  unfold binIdx aff
  have h1 : (a * x + b - (a * lo + b)) / (a * hi + b - (a * lo + b)) = (x - lo) / (hi - lo) := by
    have h2 : hi - lo ≠ 0 := by linarith
    have h3 : a * hi + b - (a * lo + b) = a * (hi - lo) := by ring
    have h4 : a * x + b - (a * lo + b) = a * (x - lo) := by ring
    rw [h3, h4, mul_div_mul_left _ _ ha.ne']
  rw [h1]

/-- the bin centres transform with the map -/
theorem center_affine (a b lo hi : Rat) (k : Nat) :
    center (aff a b lo) (aff a b hi) k = aff a b (center lo hi k) := by
  unfold center aff nbins; ring

/-! ### the Otsu optimisation -/

theorem argmaxNaN_go_spec (vs : List (Option Rat)) (hall : ∀ o ∈ vs, o ≠ none) (best : Nat) (bv : Rat) (i : Nat) :
    ∃ v, (argmaxNaN.go best bv i vs = best ∧ v = bv ∨
          ∃ j, j < vs.length ∧ argmaxNaN.go best bv i vs = i + j ∧ vs[j]? = some (some v)) ∧
      bv ≤ v ∧ ∀ (j : Nat) (w : Rat), vs[j]? = some (some w) → w ≤ v := by
  induction vs generalizing best bv i with
  | nil => exact ⟨bv, Or.inl ⟨rfl, rfl⟩, le_refl _, by simp⟩
  | cons o rest ih =>
    have hrest : ∀ o ∈ rest, o ≠ none := fun o ho => hall o (List.mem_cons_of_mem _ ho)
    cases o with
    | none => exact absurd rfl (hall none List.mem_cons_self)
    | some v0 =>
      simp only [argmaxNaN.go]
      by_cases hlt : bv < v0
      · simp only [hlt, if_true]
        obtain ⟨v, hv, hle, hmax⟩ := ih hrest i v0 (i + 1)
        refine ⟨v, ?_, le_trans hlt.le hle, ?_⟩
        · right
          rcases hv with ⟨h1, h2⟩ | ⟨j, hj, h1, h2⟩
          · exact ⟨0, by simp, by simpa using h1, by simp [h2]⟩
          · exact ⟨j + 1, by simpa using hj, by rw [h1]; omega, by simpa using h2⟩
        · intro j w hj
          cases j with
          | zero => simp at hj; rw [← hj]; exact hle
          | succ j => exact hmax j w (by simpa using hj)
      · simp only [hlt, if_false]
        obtain ⟨v, hv, hle, hmax⟩ := ih hrest best bv (i + 1)
        refine ⟨v, ?_, hle, ?_⟩
        · rcases hv with ⟨h1, h2⟩ | ⟨j, hj, h1, h2⟩
          · exact Or.inl ⟨h1, h2⟩
          · exact Or.inr ⟨j + 1, by simpa using hj, by rw [h1]; omega, by simpa using h2⟩
        · intro j w hj
          cases j with
          | zero => simp at hj; rw [← hj]; exact le_trans (not_lt.mp hlt) hle
          | succ j => exact hmax j w (by simpa using hj)

/-- **`threshold_otsu` returns the bin centre maximising the between-class variance**: when no
split has an empty class, the selected index carries a variance that no other split exceeds. -/
theorem otsu_is_argmax (vs : List (Option Rat)) (hne : vs ≠ []) (hall : ∀ o ∈ vs, o ≠ none) :
    ∃ v, vs[argmaxNaN vs]? = some (some v) ∧ ∀ (j : Nat) (w : Rat), vs[j]? = some (some w) → w ≤ v := by
  have hfind : vs.findIdx? (· == none) = none := by
    rw [List.findIdx?_eq_none_iff]
    intro o ho
    have := hall o ho
    cases o <;> simp_all
  cases vs with
  | nil => exact absurd rfl hne
  | cons o rest =>
    cases o with
    | none => exact absurd rfl (hall none List.mem_cons_self)
    | some v0 =>
      have hrest : ∀ o ∈ rest, o ≠ none := fun o ho => hall o (List.mem_cons_of_mem _ ho)
      obtain ⟨v, hv, hle, hmax⟩ := argmaxNaN_go_spec rest hrest 0 v0 1
      refine ⟨v, ?_, ?_⟩
      · unfold argmaxNaN
        rw [hfind]
        simp only
        rcases hv with ⟨h1, h2⟩ | ⟨j, hj, h1, h2⟩
        · rw [h1, h2]; simp
        · rw [h1]
          have : 1 + j = j + 1 := by omega
          rw [this]; simpa using h2
      · intro j w hj
        cases j with
        | zero => simp at hj; rw [← hj]; exact hle
        | succ j => exact hmax j w (by simpa using hj)

/-- the NaN rule of `np.argmax`: an empty class (NaN variance) wins, the first one -/
theorem otsu_nan_rule (vs : List (Option Rat)) (i : Nat) (h : vs.findIdx? (· == none) = some i) :
    argmaxNaN vs = i := by
  unfold argmaxNaN; rw [h]

/-! ### the size filter -/

theorem removeSmall_go {β : Type} (radius : β → Rat) (minR : Rat) (pre suf : List β)
    (hsuf : ∀ d ∈ suf, ¬ radius d ≤ minR) :
    (List.range pre.length).reverse.foldl
      (fun acc i => match acc[i]? with
        | some d => if radius d ≤ minR then acc.eraseIdx i else acc
        | none => acc) (pre ++ suf) = pre.filter (fun d => !decide (radius d ≤ minR)) ++ suf := by
  induction pre using List.reverseRecOn generalizing suf with
  | nil => simp
  | append_singleton pre d ih =>
    simp only [List.length_append, List.length_singleton, List.range_succ, List.reverse_append,
      List.reverse_singleton, List.singleton_append, List.foldl_cons]
    have hget : (pre ++ [d] ++ suf)[pre.length]? = some d := by simp
    rw [hget]
    simp only
    by_cases hd : radius d ≤ minR
    · simp only [hd, if_true]
      have : (pre ++ [d] ++ suf).eraseIdx pre.length = pre ++ suf := by
        rw [List.append_assoc, List.eraseIdx_append_of_length_le (le_refl _)]
        simp
      rw [this, ih suf hsuf]
      simp [List.filter_append, hd]
    · simp only [hd, if_false]
      rw [List.append_assoc, ih ([d] ++ suf) (by
        intro x hx
        rcases List.mem_append.mp hx with h | h
        · have : x = d := by simpa using h
          rw [this]; exact hd
        · exact hsuf x h)]
      simp [List.filter_append, hd]

/-- **`remove_small` is the filter `radius > min_radius`**: every survivor is larger, nothing
larger is dropped, the order is kept (for every list and every minimal radius). -/
theorem removeSmall_eq_filter {β : Type} (radius : β → Rat) (minR : Rat) (xs : List β) :
    removeSmall radius minR xs = xs.filter (fun d => decide (minR < radius d)) := by
  unfold removeSmall
  have := removeSmall_go radius minR xs [] (by simp)
  simp only [List.append_nil] at this
  refine this.trans ?_
  apply List.filter_congr
  intro d _
  by_cases h : radius d ≤ minR
  · simp [h, not_lt.mpr h]
  · simp [h, not_le.mp h]

/-- non-vacuity: the model on concrete data (two-level image with one outlier; Otsu picks a bin
between the levels; `remove_small` with ties) -/
example : extrema [0, 1, 1/2] = 1/2 ∧ mean [0, 1, 1/2] = 1/2 ∧
    removeSmall (fun (r : Rat) => r) (1/2) [1/4, 1, 1/2, 3] = [1, 3] := by decide +kernel

end DV.C18
