/-
  C08 — Saving and loading returns an equal object.
  Theorems about Model/Hdf.lean: for every collection of well-formed droplets (any class, any
  dimension, any number of amplitudes ≥ 1, unset widths as NaN patterns, empty collections and
  empty members), writing either fails or the file decodes to exactly what was written.
-/
import DropletsVerif.Model.Hdf
import Mathlib.Tactic

namespace DV.C08
open DV.Hdf DV.ClassSel

/-! ### generic facts about `mapM` in `Except` -/

theorem mapM_ok_of_forall {α β : Type} (f : α → Except String β) (g : α → β) (l : List α)
    (h : ∀ x ∈ l, f x = .ok (g x)) : l.mapM f = .ok (l.map g) := by
  induction l with
  | nil => rfl
  | cons a l ih =>
    rw [List.mapM_cons, h a List.mem_cons_self, ih (fun x hx => h x (List.mem_cons_of_mem _ hx))]
    rfl

theorem mapM_error_of_exists {α β : Type} (f : α → Except String β) (l : List α)
    (h : ∃ x ∈ l, ∃ e, f x = .error e) : ∃ e, l.mapM f = .error e := by
  induction l with
  | nil => obtain ⟨x, hx, _⟩ := h; cases hx
  | cons a l ih =>
    rw [List.mapM_cons]
    cases hfa : f a with
    | error e => exact ⟨e, rfl⟩
    | ok b =>
      obtain ⟨x, hx, e, he⟩ := h
      rcases List.mem_cons.mp hx with rfl | hx'
      · rw [hfa] at he; cases he
      · obtain ⟨e', he'⟩ := ih ⟨x, hx', e, he⟩
        exact ⟨e', by simp [he', bind, Except.bind]⟩

/-! ### one record -/

theorem parseRow_row (d : Drop) (h : WF d = true) :
    parseRow d.cls d.pos.length d.amps.length (row d) = .ok d := by
  obtain ⟨cls, pos, radius, width, amps⟩ := d
  simp only [WF, Bool.and_eq_true, decide_eq_true_eq] at h
  obtain ⟨⟨⟨_, _⟩, hw⟩, _⟩ := h
  cases hcw : hasWidth cls
  · -- no width stored
    simp only [hcw, Option.isSome] at hw
    cases width with
    | some w => simp at hw
    | none =>
      simp [parseRow, row, rowLen, hcw]
      omega
  · simp only [hcw] at hw
    cases width with
    | none => simp at hw
    | some w =>
      simp [parseRow, row, rowLen, hcw]
      omega

/-! ### emulsions -/

/-- all droplets share class and layout with `d0` -/
def Uniform (ds : List Drop) (d0 : Drop) : Prop := ∀ d ∈ ds, d.cls = d0.cls ∧ layout d = layout d0

theorem decodeRow_row (valid : Drop → Bool) (d : Drop) (h : WF d = true) (hv : valid d = true) :
    decodeRow valid d.cls d.pos.length d.amps.length (row d) = .ok d := by
  simp [decodeRow, parseRow_row d h, hv]

theorem decode_rows (valid : Drop → Bool) (ds : List Drop) (d0 : Drop)
    (hwf : ∀ d ∈ ds, WF d = true) (hv : ∀ d ∈ ds, valid d = true) (hu : Uniform ds d0) :
    (ds.map row).mapM (decodeRow valid d0.cls d0.pos.length d0.amps.length) = .ok ds := by
  rw [List.mapM_map]
  have := mapM_ok_of_forall (decodeRow valid d0.cls d0.pos.length d0.amps.length ∘ row) id ds (by
        intro d hd
        obtain ⟨hc, hl⟩ := hu d hd
        simp only [layout, Prod.mk.injEq] at hl
        have := decodeRow_row valid d (hwf d hd) (hv d hd)
        rw [hc, hl.1, hl.2] at this
        simpa using this)
  simpa using this

/-- **An emulsion that can be written reads back equal** -/
theorem roundtrip_emulsion (valid : Drop → Bool) (ds : List Drop) (s : Dataset)
    (hwf : ∀ d ∈ ds, WF d = true) (hv : ∀ d ∈ ds, valid d = true)
    (h : encodeEmulsion ds = .ok s) : decodeEmulsion valid s = .ok ds := by
  cases ds with
  | nil => simp only [encodeEmulsion] at h; cases h; rfl
  | cons d0 rest =>
    simp only [encodeEmulsion] at h
    split at h
    · cases h
    · rename_i h1
      split at h
      · cases h
      · rename_i h2
        split at h
        · cases h
        · cases h
          have hu : Uniform (d0 :: rest) d0 := by
            intro d hd
            simp only [Bool.not_eq_true, List.any_eq_false, bne_iff_ne, ne_eq, Decidable.not_not] at h1 h2
            exact ⟨by simpa using h1 d hd, by simpa using h2 d hd⟩
          simp only [decodeEmulsion]
          exact decode_rows valid (d0 :: rest) d0 hwf hv hu

/-- **Writing either raises or produces a file that reads back as exactly what was written** —
for every list of (individually well-formed) droplets, uniform or not. -/
theorem encode_error_or_faithful (valid : Drop → Bool) (ds : List Drop)
    (hwf : ∀ d ∈ ds, WF d = true) (hv : ∀ d ∈ ds, valid d = true) :
    (∃ e, encodeEmulsion ds = .error e) ∨
    ∃ s, encodeEmulsion ds = .ok s ∧ decodeEmulsion valid s = .ok ds := by
  cases h : encodeEmulsion ds with
  | error e => exact Or.inl ⟨e, rfl⟩
  | ok s => exact Or.inr ⟨s, rfl, roundtrip_emulsion valid ds s hwf hv h⟩

/-- the class written is the class of every member (so `droplet_from_data` rebuilds the right class) -/
theorem encoded_class (ds : List Drop) (s : Dataset) (h : encodeEmulsion ds = .ok s) :
    (ds = [] ∧ s.cls = none) ∨ ∃ c, s.cls = some c ∧ ∀ d ∈ ds, d.cls = c := by
  cases ds with
  | nil => simp only [encodeEmulsion] at h; cases h; exact Or.inl ⟨rfl, rfl⟩
  | cons d0 rest =>
    right
    simp only [encodeEmulsion] at h
    split at h
    · cases h
    · rename_i h1
      split at h
      · cases h
      · split at h
        · cases h
        · cases h
          refine ⟨d0.cls, rfl, ?_⟩
          intro d hd
          simp only [Bool.not_eq_true, List.any_eq_false, bne_iff_ne, ne_eq, Decidable.not_not] at h1
          simpa using h1 d hd

/-! ### tracks -/

theorem roundtrip_track (valid : Drop → Bool) (tr : List (Nat × Drop)) (s : Dataset)
    (hwf : ∀ p ∈ tr, WF p.2 = true) (hv : ∀ p ∈ tr, valid p.2 = true)
    (h : encodeTrack tr = .ok s) : decodeTrack valid s = .ok tr := by
  cases tr with
  | nil => simp only [encodeTrack] at h; cases h; rfl
  | cons p0 rest =>
    obtain ⟨t0, d0⟩ := p0
    simp only [encodeTrack] at h
    split at h
    · cases h
    · rename_i h1
      split at h
      · cases h
      · cases h
        simp only [decodeTrack]
        rw [List.mapM_map]
        have := mapM_ok_of_forall
          (decodeTRow valid d0.cls d0.pos.length d0.amps.length ∘ fun p : Nat × Drop => p.1 :: row p.2)
          id ((t0, d0) :: rest) (by
            intro p hp
            simp only [Bool.not_eq_true, List.any_eq_false, Bool.or_eq_false_iff, bne_eq_false_iff_eq] at h1
            obtain ⟨hc, hl⟩ := h1 p hp
            simp only [layout, Prod.mk.injEq] at hl
            have := decodeRow_row valid p.2 (hwf p hp) (hv p hp)
            rw [hc, hl.1, hl.2] at this
            simp [decodeTRow, this])
        simpa using this

theorem track_error_or_faithful (valid : Drop → Bool) (tr : List (Nat × Drop))
    (hwf : ∀ p ∈ tr, WF p.2 = true) (hv : ∀ p ∈ tr, valid p.2 = true) :
    (∃ e, encodeTrack tr = .error e) ∨ ∃ s, encodeTrack tr = .ok s ∧ decodeTrack valid s = .ok tr := by
  cases h : encodeTrack tr with
  | error e => exact Or.inl ⟨e, rfl⟩
  | ok s => exact Or.inr ⟨s, rfl, roundtrip_track valid tr s hwf hv h⟩

/-! ### keys: zero-padded decimal strings sort like numbers below 10^6 -/

theorem digitsW_length (w n : Nat) : (digitsW w n).length = w := by
  induction w generalizing n with
  | zero => rfl
  | succ w ih => simp [digitsW, ih]

theorem lexLt_append_of_lt (p q x y : List Nat) (hlen : p.length = q.length) (h : lexLt p q = true) :
    lexLt (p ++ x) (q ++ y) = true := by
  induction p generalizing q with
  | nil =>
    cases q with
    | nil => simp [lexLt] at h
    | cons b q => simp at hlen
  | cons a p ih =>
    cases q with
    | nil => simp at hlen
    | cons b q =>
      simp only [lexLt, Bool.or_eq_true, decide_eq_true_eq, Bool.and_eq_true, beq_iff_eq,
        List.cons_append] at h ⊢
      rcases h with h | ⟨h1, h2⟩
      · exact Or.inl h
      · exact Or.inr ⟨h1, ih q (by simpa using hlen) h2⟩

theorem lexLt_append_same (p x y : List Nat) (h : lexLt x y = true) : lexLt (p ++ x) (p ++ y) = true := by
  induction p with
  | nil => simpa using h
  | cons a p ih => simp [lexLt, ih]

theorem digitsW_lt (w n m : Nat) (hm : m < 10 ^ w) (h : n < m) :
    lexLt (digitsW w n) (digitsW w m) = true := by
  induction w generalizing n m with
  | zero => simp at hm; omega
  | succ w ih =>
    simp only [digitsW]
    by_cases hq : n / 10 < m / 10
    · exact lexLt_append_of_lt _ _ _ _ (by simp [digitsW_length])
        (ih (n / 10) (m / 10) (by rw [pow_succ] at hm; omega) hq)
    · have heq : n / 10 = m / 10 := by omega
      rw [heq]
      apply lexLt_append_same
      simp only [lexLt, Bool.or_eq_true, decide_eq_true_eq]
      left; omega

/-- **Below one million members the written keys are strictly increasing in string order**, so
reading them back in sorted order visits the members in the order they were written. -/
theorem pad6_lex (i j : Nat) (hj : j < 10 ^ 6) (h : i < j) : lexLt (pad6 i) (pad6 j) = true := by
  have hi : i < 10 ^ 6 := lt_trans h hj
  simp only [pad6, hi, hj, if_true]
  exact digitsW_lt 6 i j hj h

/-- beyond that the order breaks (finding D13, theoretical): "1000000" sorts before "999999" -/
theorem pad6_overflow_witness : lexLt (pad6 1000000) (pad6 999999) = true := by decide

/-! ### time courses and track lists: members under sequential keys, read back in sorted order -/

theorem lexLe_of_lt (a b : List Nat) (h : lexLt a b = true) : lexLe a b = true := by
  simp [lexLe, h]

/-- result of the member-wise encoding: keys are `pad6 k, pad6 (k+1), …` and every entry decodes
to the member it was made from -/
theorem encTC_struct (valid : Drop → Bool) (tc : List (Nat × List Drop)) (k : Nat) (f : File)
    (hwf : ∀ m ∈ tc, ∀ d ∈ m.2, WF d = true) (hv : ∀ m ∈ tc, ∀ d ∈ m.2, valid d = true)
    (h : (tc.zipIdx k).mapM encEntryTC = .ok f) :
    f.map (·.1) = (List.range' k tc.length).map pad6 ∧ f.mapM (decEntryTC valid) = .ok tc := by
  induction tc generalizing k f with
  | nil =>
    simp only [List.zipIdx_nil, List.mapM_nil, pure, Except.pure] at h
    cases h; exact ⟨rfl, rfl⟩
  | cons m tc ih =>
    simp only [List.zipIdx_cons, List.mapM_cons, bind, Except.bind] at h
    cases he : encEntryTC (m, k) with
    | error e => rw [he] at h; cases h
    | ok entry =>
      rw [he] at h
      simp only at h
      cases hr : (tc.zipIdx (k + 1)).mapM encEntryTC with
      | error e => rw [hr] at h; cases h
      | ok rest =>
        rw [hr] at h
        simp only [pure, Except.pure] at h
        cases h
        obtain ⟨ih1, ih2⟩ := ih (k + 1) rest (fun m' hm' => hwf m' (List.mem_cons_of_mem _ hm'))
          (fun m' hm' => hv m' (List.mem_cons_of_mem _ hm')) hr
        -- the head entry
        simp only [encEntryTC] at he
        cases hs : encodeEmulsion m.2 with
        | error e => rw [hs] at he; cases he
        | ok s =>
          rw [hs] at he
          cases he
          have hdec := roundtrip_emulsion valid m.2 s (hwf m List.mem_cons_self) (hv m List.mem_cons_self) hs
          refine ⟨?_, ?_⟩
          · simp only [List.map_cons, List.length_cons, List.range'_succ, ih1]
          · rw [List.mapM_cons, ih2]
            simp [decEntryTC, hdec, bind, Except.bind, pure, Except.pure]

theorem keys_sorted (f : File) (k n : Nat) (hk : k + n ≤ 10 ^ 6)
    (h : f.map (·.1) = (List.range' k n).map pad6) : f.Pairwise (fun a b => keyLe a b = true) := by
  induction f generalizing k n with
  | nil => exact List.Pairwise.nil
  | cons e f ih =>
    cases n with
    | zero => simp at h
    | succ n =>
      simp only [List.map_cons, List.range'_succ, List.cons.injEq] at h
      refine List.Pairwise.cons ?_ (ih (k + 1) n (by omega) h.2)
      intro b hb
      have hbk : b.1 ∈ (List.range' (k + 1) n).map pad6 := by
        rw [← h.2]; exact List.mem_map_of_mem hb
      obtain ⟨j, hj, hjb⟩ := List.mem_map.mp hbk
      simp only [List.mem_range'_1] at hj
      simp only [keyLe, h.1, ← hjb]
      exact lexLe_of_lt _ _ (pad6_lex k j (by omega) (by omega))

/-- **A time course with at most 10^6 members that can be written reads back equal**: same
members, same times, same order. -/
theorem roundtrip_timecourse (valid : Drop → Bool) (tc : List (Nat × List Drop)) (f : File)
    (hn : tc.length ≤ 10 ^ 6)
    (hwf : ∀ m ∈ tc, ∀ d ∈ m.2, WF d = true) (hv : ∀ m ∈ tc, ∀ d ∈ m.2, valid d = true)
    (h : encodeTC tc = .ok f) : decodeTC valid f = .ok tc := by
  unfold encodeTC at h
  obtain ⟨hk, hd⟩ := encTC_struct valid tc 0 f hwf hv h
  unfold decodeTC
  rw [List.mergeSort_of_pairwise (keys_sorted f 0 tc.length (by omega) hk)]
  exact hd

theorem encTL_struct (valid : Drop → Bool) (tl : List (List (Nat × Drop))) (k : Nat) (f : File)
    (hwf : ∀ tr ∈ tl, ∀ p ∈ tr, WF p.2 = true) (hv : ∀ tr ∈ tl, ∀ p ∈ tr, valid p.2 = true)
    (h : (tl.zipIdx k).mapM encEntryTL = .ok f) :
    f.map (·.1) = (List.range' k tl.length).map pad6 ∧
      f.mapM (fun e => decodeTrack valid e.2.2) = .ok tl := by
  induction tl generalizing k f with
  | nil =>
    simp only [List.zipIdx_nil, List.mapM_nil, pure, Except.pure] at h
    cases h; exact ⟨rfl, rfl⟩
  | cons tr tl ih =>
    simp only [List.zipIdx_cons, List.mapM_cons, bind, Except.bind] at h
    cases he : encEntryTL (tr, k) with
    | error e => rw [he] at h; cases h
    | ok entry =>
      rw [he] at h
      simp only at h
      cases hr : (tl.zipIdx (k + 1)).mapM encEntryTL with
      | error e => rw [hr] at h; cases h
      | ok rest =>
        rw [hr] at h
        simp only [pure, Except.pure] at h
        cases h
        obtain ⟨ih1, ih2⟩ := ih (k + 1) rest (fun m' hm' => hwf m' (List.mem_cons_of_mem _ hm'))
          (fun m' hm' => hv m' (List.mem_cons_of_mem _ hm')) hr
        simp only [encEntryTL] at he
        cases hs : encodeTrack tr with
        | error e => rw [hs] at he; cases he
        | ok s =>
          rw [hs] at he
          cases he
          have hdec := roundtrip_track valid tr s (hwf tr List.mem_cons_self) (hv tr List.mem_cons_self) hs
          refine ⟨?_, ?_⟩
          · simp only [List.map_cons, List.length_cons, List.range'_succ, ih1]
          · rw [List.mapM_cons, ih2]
            simp [hdec, bind, Except.bind, pure, Except.pure]

/-- **A track list with at most 10^6 tracks that can be written reads back equal**: same tracks,
same order, every track with the same times and droplets. -/
theorem roundtrip_tracklist (valid : Drop → Bool) (tl : List (List (Nat × Drop))) (f : File)
    (hn : tl.length ≤ 10 ^ 6)
    (hwf : ∀ tr ∈ tl, ∀ p ∈ tr, WF p.2 = true) (hv : ∀ tr ∈ tl, ∀ p ∈ tr, valid p.2 = true)
    (h : encodeTL tl = .ok f) : decodeTL valid f = .ok tl := by
  unfold encodeTL at h
  obtain ⟨hk, hd⟩ := encTL_struct valid tl 0 f hwf hv h
  unfold decodeTL
  rw [List.mergeSort_of_pairwise (keys_sorted f 0 tl.length (by omega) hk)]
  exact hd

/-- beyond 10^6 members the sorted reading order is not the writing order (finding D13) -/
theorem keys_unsorted_beyond_limit :
    ¬ ([pad6 999999, pad6 1000000].Pairwise fun a b => lexLe a b = true) := by decide

end DV.C08
