/-
  C15 — Results do not depend on the number of worker processes or on scheduling.
  Theorems about Model/Executor.lean: for every task function, every input list and EVERY
  completion order (any permutation of the tasks; repetitions allowed).
-/
import DropletsVerif.Model.Executor
import Mathlib.Tactic

namespace DV.C15
open DV.Executor

variable {α β : Type}

theorem foldl_complete_getElem (f : α → β) (xs : List α) (sched : List Nat) (slots : List (Option β))
    (j : Nat) :
    (sched.foldl (complete f xs) slots)[j]? =
      if j ∈ sched ∧ j < slots.length then some (xs[j]?.map f) else slots[j]? := by
  induction sched generalizing slots with
  | nil => simp
  | cons i rest ih =>
    simp only [List.foldl_cons, ih, complete, List.length_set, List.mem_cons]
    by_cases hjr : j ∈ rest
    · by_cases hlt : j < slots.length
      · simp [hjr, hlt]
      · simp only [hjr, hlt, and_false, if_false, or_true]
        rw [List.getElem?_set]
        by_cases hij : i = j
        · subst hij; simp [Nat.le_of_not_lt hlt]
        · simp [hij]
    · simp only [hjr, false_and, if_false, or_false]
      rw [List.getElem?_set]
      by_cases hij : i = j
      · subst hij
        by_cases hlt : i < slots.length
        · simp [hlt]
        · simp only [hlt, if_false, and_false]
          simp [Nat.le_of_not_lt hlt]
      · have : ¬ j = i := fun h => hij h.symm
        simp [hij, this]

theorem runSchedule_eq (f : α → β) (xs : List α) (sched : List Nat)
    (hall : ∀ i, i < xs.length → i ∈ sched) :
    runSchedule f xs sched = xs.map (fun x => some (f x)) := by
  apply List.ext_getElem?
  intro j
  unfold runSchedule
  rw [foldl_complete_getElem]
  simp only [List.length_replicate]
  by_cases hj : j < xs.length
  · simp [hall j hj, hj]
  · have h1 : xs.length ≤ j := Nat.le_of_not_lt hj
    simp [hj, List.getElem?_eq_none h1]

/-- **`executor.map` returns results in submission order whatever the completion order.** -/
theorem map_schedule_independent (f : α → β) (xs : List α) (sched : List Nat)
    (hall : ∀ i, i < xs.length → i ∈ sched) : poolMap f xs sched = xs.map f := by
  unfold poolMap
  rw [runSchedule_eq f xs sched hall]
  induction xs with
  | nil => rfl
  | cons x xs ih => simp [List.filterMap_cons]

/-- in particular for every permutation of the tasks -/
theorem map_perm_independent (f : α → β) (xs : List α) (sched : List Nat)
    (h : sched.Perm (List.range xs.length)) : poolMap f xs sched = xs.map f :=
  map_schedule_independent f xs sched (fun i hi => h.symm.subset (List.mem_range.mpr hi))

/-- **Refining candidates in a pool equals refining them serially** (same droplets, same order,
`None` results dropped) for every completion order. -/
theorem refine_par_eq_ser (f : α → Option β) (xs : List α) (sched : List Nat)
    (hall : ∀ i, i < xs.length → i ∈ sched) : refineParallel f xs sched = refineSerial f xs := by
  unfold refineParallel refineSerial
  rw [map_schedule_independent f xs sched hall, List.filterMap_map]
  rfl

/-- **Analysing stored frames in a pool equals analysing them serially.** -/
theorem storage_par_eq_ser (f : α → β) (xs : List α) (sched : List Nat)
    (hall : ∀ i, i < xs.length → i ∈ sched) : storageParallel f xs sched = storageSerial f xs :=
  map_schedule_independent f xs sched hall

/-- two different schedules (e.g. different worker counts) give the same result -/
theorem schedules_agree (f : α → β) (xs : List α) (s1 s2 : List Nat)
    (h1 : s1.Perm (List.range xs.length)) (h2 : s2.Perm (List.range xs.length)) :
    poolMap f xs s1 = poolMap f xs s2 := by
  rw [map_perm_independent f xs s1 h1, map_perm_independent f xs s2 h2]

/-- non-vacuity: four tasks completing in reversed order -/
example : poolMap (fun x : Nat => x * x) [1, 2, 3, 4] [3, 2, 1, 0] = [1, 4, 9, 16] := by decide

end DV.C15
