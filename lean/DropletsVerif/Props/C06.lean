/-
  C06 — Tracking neither loses, duplicates nor alters droplets.
  Theorems about `DV.Track.trackAll` (Model/Track.lean) for EVERY list of frames, every overlap
  table, every distance table, every cut-off, both methods.
-/
import DropletsVerif.Model.Track
import DropletsVerif.Props.C10
import Mathlib.Tactic

namespace DV.C06
open DV.Track DV.Overlap

variable {τ : Type} [DecidableEq τ]
variable {α : Type} [LinearOrder α]

/-! ### helper lemmas -/

theorem flatten_modify_append {β : Type} (l : List (List β)) (i : Nat) (x : β) (h : i < l.length) :
    (l.modify i (· ++ [x])).flatten.Perm (x :: l.flatten) := by
  induction l generalizing i with
  | nil => simp at h
  | cons a l ih =>
    cases i with
    | zero =>
      simp only [List.modify_zero_cons, List.flatten_cons]
      have : (a ++ [x] ++ l.flatten).Perm ([x] ++ a ++ l.flatten) :=
        (List.perm_append_comm (l₁ := a) (l₂ := [x])).append_right _
      simpa using this
    | succ i =>
      simp only [List.modify_succ_cons, List.flatten_cons]
      have h' : i < l.length := by simpa using h
      exact ((ih i h').append_left a).trans (by simpa using List.perm_middle)

theorem mem_aliveIdx (tracks : List (Track τ)) (tlast : Option τ) (i : Nat)
    (h : i ∈ aliveIdx tracks tlast) : i < tracks.length := by
  simp only [aliveIdx, List.mem_filter, List.mem_range] at h
  exact h.1

theorem hits_sub (ov : Nat → Nat → Bool) (alive : List Nat) (tracks : List (Track τ)) (d i : Nat)
    (h : i ∈ hits ov alive tracks d) : i ∈ alive := by
  simp only [hits, List.mem_filter] at h
  exact h.1

/-- one droplet of the overlap method: the droplet is added exactly once, nothing else changes,
the number of tracks never decreases -/
theorem procDroplet_perm (ov : Nat → Nat → Bool) (alive : List Nat) (t : τ) (tracks : List (Track τ))
    (d : Nat) (hal : ∀ i ∈ alive, i < tracks.length) :
    (procDroplet ov alive t tracks d).flatten.Perm ((d, t) :: tracks.flatten) ∧
    tracks.length ≤ (procDroplet ov alive t tracks d).length := by
  unfold procDroplet
  split
  · rename_i i hi
    have hmem : i ∈ hits ov alive tracks d := by rw [hi]; exact List.mem_singleton.mpr rfl
    refine ⟨flatten_modify_append _ _ _ (hal i (hits_sub ov alive tracks d i hmem)), by simp⟩
  · refine ⟨?_, by simp⟩
    simp only [List.flatten_append, List.flatten_cons, List.flatten_nil, List.append_nil]
    exact List.perm_append_comm.trans (by simp)

theorem foldl_procDroplet_perm (ov : Nat → Nat → Bool) (alive : List Nat) (t : τ) (ds : List Nat)
    (tracks : List (Track τ)) (hal : ∀ i ∈ alive, i < tracks.length) :
    (ds.foldl (procDroplet ov alive t) tracks).flatten.Perm (ds.map (fun d => (d, t)) ++ tracks.flatten) := by
  induction ds generalizing tracks with
  | nil => simp
  | cons d ds ih =>
    obtain ⟨hp, hl⟩ := procDroplet_perm ov alive t tracks d hal
    have := ih (procDroplet ov alive t tracks d) (fun i hi => lt_of_lt_of_le (hal i hi) hl)
    refine this.trans ?_
    simp only [List.map_cons, List.cons_append]
    exact ((hp.append_left _).trans List.perm_middle)

theorem stepOverlap_perm (ov : Nat → Nat → Bool) (tracks : List (Track τ)) (tlast : Option τ) (t : τ)
    (ds : List Nat) :
    (stepOverlap ov tracks tlast t ds).flatten.Perm (ds.map (fun d => (d, t)) ++ tracks.flatten) :=
  foldl_procDroplet_perm ov _ t ds tracks (fun i hi => mem_aliveIdx tracks tlast i hi)

/-- structure of the greedy matching: rows come from `rows`, matched + unmatched columns are a
rearrangement of `cols` -/
theorem greedy_struct (D : Nat → Nat → α) (maxd : Option α) (fuel : Nat) (rows cols : List Nat) :
    (∀ l ∈ (greedy D maxd fuel rows cols).1, l.1 ∈ rows) ∧
    cols.Perm ((greedy D maxd fuel rows cols).1.map (·.2) ++ (greedy D maxd fuel rows cols).2) := by
  induction fuel generalizing rows cols with
  | zero => simp [greedy]
  | succ fuel ih =>
    unfold greedy
    cases h : firstMin D (cands D maxd rows cols) with
    | none => simp
    | some p =>
      obtain ⟨i, j⟩ := p
      obtain ⟨h1, h2⟩ := ih (rows.erase i) (cols.erase j)
      have hmem : (i, j) ∈ cands D maxd rows cols := by
        rcases DV.C10.firstMin_spec D (cands D maxd rows cols) with ⟨_, hn⟩ | ⟨p, hp, hs, _⟩
        · rw [hn] at h; cases h
        · rw [hs] at h; cases h; exact hp
      have hij : i ∈ rows ∧ j ∈ cols := by
        simp only [cands, List.mem_flatMap, List.mem_map, List.mem_filter] at hmem
        obtain ⟨a, ha, b, ⟨hb, _⟩, hab⟩ := hmem
        cases hab; exact ⟨ha, hb⟩
      simp only [List.map_cons, List.cons_append]
      refine ⟨?_, (List.perm_cons_erase hij.2).trans (h2.cons j)⟩
      intro l hl
      rcases List.mem_cons.mp hl with rfl | hl'
      · exact hij.1
      · exact List.mem_of_mem_erase (h1 l hl')

theorem applyLinks_perm (t : τ) (links : List (Nat × Nat)) (tracks : List (Track τ))
    (h : ∀ l ∈ links, l.1 < tracks.length) :
    (applyLinks t tracks links).flatten.Perm (links.map (fun l => (l.2, t)) ++ tracks.flatten) ∧
    (applyLinks t tracks links).length = tracks.length := by
  induction links generalizing tracks with
  | nil => simp [applyLinks]
  | cons l links ih =>
    have hl : l.1 < tracks.length := h l (List.mem_cons_self)
    have hp := flatten_modify_append tracks l.1 (l.2, t) hl
    obtain ⟨ih1, ih2⟩ := ih (tracks.modify l.1 (· ++ [(l.2, t)]))
      (fun l' hl' => by simpa using h l' (List.mem_cons_of_mem _ hl'))
    refine ⟨?_, by simpa [applyLinks] using ih2⟩
    simp only [applyLinks, List.foldl_cons, List.map_cons, List.cons_append] at *
    exact ih1.trans ((hp.append_left _).trans List.perm_middle)

theorem stepDistance_perm (dist : Nat → Nat → α) (maxd : Option α) (e : Bool) (tracks : List (Track τ))
    (tlast : Option τ) (t : τ) (ds : List Nat) (trs : List (Track τ))
    (h : stepDistance dist maxd e tracks tlast t ds = .ok trs) :
    trs.flatten.Perm (ds.map (fun d => (d, t)) ++ tracks.flatten) := by
  unfold stepDistance at h
  simp only at h
  split at h
  · cases h
    simp only [List.flatten_append]
    have : (List.map (fun d => [(d, t)]) ds).flatten = ds.map (fun d => (d, t)) := by
      induction ds with
      | nil => rfl
      | cons d ds ih => simp [ih]
    rw [this]; exact List.perm_append_comm
  · split at h
    · rename_i hds
      have : ds = [] := by simpa using hds
      subst this
      split at h
      · cases h
      · cases h; simp
    · cases h
      set D : Nat → Nat → α := fun i j => dist ((lastOf tracks i).getD 0) j
      obtain ⟨h1, h2⟩ := greedy_struct D maxd (ds.length + 1) (aliveIdx tracks tlast) ds
      obtain ⟨hp, _⟩ := applyLinks_perm t (greedy D maxd (ds.length + 1) (aliveIdx tracks tlast) ds).1 tracks
        (fun l hl => mem_aliveIdx tracks tlast l.1 (h1 l hl))
      simp only [List.flatten_append]
      have hflat : ∀ xs : List Nat, (List.map (fun d => [(d, t)]) xs).flatten = xs.map (fun d => (d, t)) := by
        intro xs
        induction xs with
        | nil => rfl
        | cons d ds ih => simp [ih]
      rw [hflat]
      have h3 := (h2.map (fun d => (d, t)))
      simp only [List.map_append, List.map_map] at h3
      refine (hp.append_right _).trans ?_
      refine List.Perm.trans ?_ (h3.symm.append_right _)
      simp only [List.append_assoc]
      refine List.Perm.append_left _ ?_
      exact List.perm_append_comm

/-! ### the property -/

/-- all `(droplet, frame time)` pairs of a time course -/
def allEntries (frames : List (τ × List Nat)) : List (Entry τ) :=
  frames.flatMap fun fr => fr.2.map fun d => (d, fr.1)

theorem stepFrame_perm (m : Method α) (st st' : List (Track τ) × Option τ) (fr : τ × List Nat)
    (h : stepFrame m st fr = .ok st') :
    st'.1.flatten.Perm (fr.2.map (fun d => (d, fr.1)) ++ st.1.flatten) ∧ st'.2 = some fr.1 := by
  cases m with
  | overlap ov =>
    simp only [stepFrame] at h
    cases h
    exact ⟨stepOverlap_perm ov st.1 st.2 fr.1 fr.2, rfl⟩
  | distance dist maxd e =>
    simp only [stepFrame] at h
    split at h
    · rename_i trs htrs
      cases h
      exact ⟨stepDistance_perm dist maxd e st.1 st.2 fr.1 fr.2 trs htrs, rfl⟩
    · cases h

theorem foldlM_perm (m : Method α) (frames : List (τ × List Nat)) (st st' : List (Track τ) × Option τ)
    (h : frames.foldlM (stepFrame m) st = .ok st') :
    st'.1.flatten.Perm (allEntries frames ++ st.1.flatten) := by
  induction frames generalizing st with
  | nil =>
    simp only [List.foldlM_nil, pure, Except.pure] at h
    cases h; simp [allEntries]
  | cons fr frames ih =>
    simp only [List.foldlM_cons, bind, Except.bind] at h
    split at h
    · cases h
    · rename_i st1 hst1
      obtain ⟨hp, _⟩ := stepFrame_perm m st st1 fr hst1
      refine (ih st1 h).trans ?_
      simp only [allEntries, List.flatMap_cons, List.append_assoc]
      exact (hp.append_left _).trans (by
        rw [← List.append_assoc, ← List.append_assoc]
        exact List.perm_append_comm.append_right _)

/-- **Partition.**  Whenever tracking returns, the tracks contain every droplet of every frame
exactly once, each stamped with its frame's time (as multisets of `(droplet, time)` pairs). -/
theorem track_partition (m : Method α) (frames : List (τ × List Nat)) (trs : List (Track τ))
    (h : trackAll m frames = .ok trs) : trs.flatten.Perm (allEntries frames) := by
  unfold trackAll at h
  cases h' : frames.foldlM (stepFrame m) (([] : List (Track τ)), (none : Option τ)) with
  | error e => rw [h'] at h; cases h
  | ok st' =>
    rw [h'] at h
    simp only [Except.map] at h
    cases h
    simpa using foldlM_perm m frames _ st' h'

theorem foldlM_total (m : Method α) (frames : List (τ × List Nat)) (st : List (Track τ) × Option τ)
    (hstep : ∀ st fr, ∃ st', stepFrame (τ := τ) m st fr = .ok st') :
    ∃ st', frames.foldlM (stepFrame m) st = .ok st' := by
  induction frames generalizing st with
  | nil => exact ⟨st, rfl⟩
  | cons fr frames ih =>
    obtain ⟨st1, h1⟩ := hstep st fr
    obtain ⟨st2, h2⟩ := ih st1
    exact ⟨st2, by simp [List.foldlM_cons, bind, Except.bind, h1, h2]⟩

/-- **Totality.**  Overlap matching, and distance matching with the repaired empty-frame branch,
return tracks for every time course (frames without droplets included). -/
theorem track_total (m : Method α) (frames : List (τ × List Nat))
    (hm : (∃ ov, m = .overlap ov) ∨ ∃ dist maxd, m = .distance dist maxd false) :
    ∃ trs : List (Track τ), trackAll m frames = .ok trs := by
  have hstep : ∀ st fr, ∃ st', stepFrame (τ := τ) m st fr = .ok st' := by
    intro st fr
    rcases hm with ⟨ov, rfl⟩ | ⟨dist, maxd, rfl⟩
    · exact ⟨_, rfl⟩
    · simp only [stepFrame, stepDistance]
      split
      · rename_i trs h
        exact ⟨_, rfl⟩
      · rename_i s h
        exfalso
        split at h
        · cases h
        · split at h
          · simp at h
          · cases h
  obtain ⟨st', h⟩ := foldlM_total m frames (([] : List (Track τ)), (none : Option τ)) hstep
  exact ⟨st'.1, by simp [trackAll, h, Except.map]⟩

/-- the behaviour BEFORE the repair (finding D6): a droplet followed by an empty frame raises -/
theorem track_total_counterexample_before_fix :
    trackAll (τ := Nat) (α := ℚ) (.distance (fun _ _ => 0) none true) [(0, [0]), (1, [])]
      = .error "ValueError" := by decide +kernel

/-! ### one droplet per frame, gap-free: every step extends a track at most once, only tracks
that ended in the previous frame, and always with the current frame's time -/

/-- `b` is `a` possibly extended by ONE entry stamped `t` -/
def ExtendsByAtMostOne (t : τ) (a b : Track τ) : Prop := b = a ∨ ∃ d, b = a ++ [(d, t)]

/-- result of one step, track by track: old tracks are kept or extended by one entry with the
frame's time (only if alive), new tracks are singletons with the frame's time -/
def StepShape (t : τ) (alive : List Nat) (old new : List (Track τ)) : Prop :=
  ∃ ext fresh, new = ext ++ fresh ∧ ext.length = old.length ∧
    (∀ i (h : i < old.length) (h' : i < ext.length),
        ExtendsByAtMostOne t old[i] ext[i] ∧ (i ∉ alive → ext[i] = old[i])) ∧
    ∀ tr ∈ fresh, ∃ d, tr = [(d, t)]

theorem modify_getElem {β : Type} (l : List β) (f : β → β) (i j : Nat) (h : j < (l.modify i f).length)
    (h' : j < l.length) : (l.modify i f)[j] = if i = j then f l[j] else l[j] := by
  simp [List.getElem_modify]

/-- distance method: `StepShape` holds for every table (rows of the greedy matching are erased
once used, so a track is extended at most once) -/
theorem applyLinks_shape (t : τ) (links : List (Nat × Nat)) (tracks : List (Track τ))
    (hnd : (links.map (·.1)).Nodup) :
    (applyLinks t tracks links).length = tracks.length ∧
    ∀ i (h : i < tracks.length) (h' : i < (applyLinks t tracks links).length),
      ((applyLinks t tracks links)[i] = tracks[i] ∧ i ∉ links.map (·.1)) ∨
      (∃ d, (i, d) ∈ links ∧ (applyLinks t tracks links)[i] = tracks[i] ++ [(d, t)]) := by
  induction links generalizing tracks with
  | nil => simp [applyLinks]
  | cons l links ih =>
    simp only [List.map_cons, List.nodup_cons] at hnd
    obtain ⟨ih1, ih2⟩ := ih (tracks.modify l.1 (· ++ [(l.2, t)])) hnd.2
    have hlen : (applyLinks t tracks (l :: links)).length = tracks.length := by
      simpa [applyLinks] using ih1
    refine ⟨hlen, ?_⟩
    intro i h h'
    have hi : i < (tracks.modify l.1 (· ++ [(l.2, t)])).length := by simpa using h
    have h'' : i < (applyLinks t (tracks.modify l.1 (· ++ [(l.2, t)])) links).length := by
      simpa [applyLinks] using h'
    have hget : (tracks.modify l.1 (· ++ [(l.2, t)]))[i]'hi = if l.1 = i then tracks[i]'h ++ [(l.2, t)] else tracks[i]'h :=
      modify_getElem _ _ _ _ hi h
    have happ : (applyLinks t tracks (l :: links))[i]'h' =
        (applyLinks t (tracks.modify l.1 (· ++ [(l.2, t)])) links)[i]'h'' := by
      simp [applyLinks]
    rcases ih2 i hi h'' with ⟨heq, hnot⟩ | ⟨d, hd, heq⟩
    · by_cases hli : l.1 = i
      · right
        refine ⟨l.2, ?_, ?_⟩
        · rw [← hli]; exact List.mem_cons_self
        · rw [happ, heq, hget, if_pos hli]
      · left
        refine ⟨by rw [happ, heq, hget, if_neg hli], ?_⟩
        simp only [List.map_cons, List.mem_cons, not_or]
        exact ⟨fun e => hli e.symm, hnot⟩
    · right
      have hne : l.1 ≠ i := by
        intro e
        apply hnd.1
        rw [e]
        exact List.mem_map.mpr ⟨(i, d), hd, rfl⟩
      exact ⟨d, List.mem_cons_of_mem _ hd, by rw [happ, heq, hget, if_neg hne]⟩

theorem greedy_rows_nodup (D : Nat → Nat → α) (maxd : Option α) (fuel : Nat) (rows cols : List Nat)
    (hr : rows.Nodup) : ((greedy D maxd fuel rows cols).1.map (·.1)).Nodup := by
  induction fuel generalizing rows cols with
  | zero => simp [greedy]
  | succ fuel ih =>
    unfold greedy
    cases h : firstMin D (cands D maxd rows cols) with
    | none => simp
    | some p =>
      obtain ⟨i, j⟩ := p
      simp only [List.map_cons, List.nodup_cons]
      refine ⟨?_, ih _ _ (hr.erase i)⟩
      intro hmem
      obtain ⟨l, hl, hli⟩ := List.mem_map.mp hmem
      have := (greedy_struct D maxd fuel (rows.erase i) (cols.erase j)).1 l hl
      rw [hli] at this
      exact (List.Nodup.mem_erase_iff hr).mp this |>.1 rfl

theorem aliveIdx_nodup (tracks : List (Track τ)) (tlast : Option τ) : (aliveIdx tracks tlast).Nodup :=
  (List.nodup_range).filter _

/-- **Distance method: every existing track is kept or extended by exactly one droplet of the
frame (only tracks that ended at the previous time), every other droplet starts a singleton
track.**  With strictly increasing times this is "at most one droplet per frame and a gap-free
run of consecutive frames". -/
theorem stepDistance_shape (dist : Nat → Nat → α) (maxd : Option α) (e : Bool) (tracks : List (Track τ))
    (tlast : Option τ) (t : τ) (ds : List Nat) (trs : List (Track τ))
    (h : stepDistance dist maxd e tracks tlast t ds = .ok trs) :
    StepShape t (aliveIdx tracks tlast) tracks trs := by
  unfold stepDistance at h
  simp only at h
  split at h
  · cases h
    refine ⟨tracks, ds.map (fun d => [(d, t)]), rfl, rfl, ?_, ?_⟩
    · intro i h1 h2; exact ⟨Or.inl rfl, fun _ => rfl⟩
    · intro tr htr
      obtain ⟨d, _, rfl⟩ := List.mem_map.mp htr
      exact ⟨d, rfl⟩
  · split at h
    · split at h
      · cases h
      · cases h
        exact ⟨tracks, [], by simp, rfl, fun i _ _ => ⟨Or.inl rfl, fun _ => rfl⟩, by simp⟩
    · cases h
      set D : Nat → Nat → α := fun i j => dist ((lastOf tracks i).getD 0) j
      set g := greedy D maxd (ds.length + 1) (aliveIdx tracks tlast) ds
      have hnd := greedy_rows_nodup D maxd (ds.length + 1) (aliveIdx tracks tlast) ds (aliveIdx_nodup tracks tlast)
      obtain ⟨hlen, hsh⟩ := applyLinks_shape t g.1 tracks hnd
      refine ⟨applyLinks t tracks g.1, g.2.map (fun d => [(d, t)]), rfl, hlen, ?_, ?_⟩
      · intro i h1 h2
        rcases hsh i h1 h2 with ⟨heq, _⟩ | ⟨d, hd, heq⟩
        · exact ⟨Or.inl heq, fun _ => heq⟩
        · refine ⟨Or.inr ⟨d, heq⟩, fun hna => ?_⟩
          exact absurd ((greedy_struct D maxd (ds.length + 1) (aliveIdx tracks tlast) ds).1 (i, d) hd) hna
      · intro tr htr
        obtain ⟨d, _, rfl⟩ := List.mem_map.mp htr
        exact ⟨d, rfl⟩

/-! overlap method -/

/-- loop invariant of the overlap method while a frame is processed -/
def OvInv (t : τ) (alive : List Nat) (old : List (Track τ)) (done : List Nat) (cur : List (Track τ)) : Prop :=
  ∃ ext fresh, cur = ext ++ fresh ∧ ext.length = old.length ∧
    (∀ i (h : i < old.length) (h' : i < ext.length),
        ext[i] = old[i] ∨ ∃ d ∈ done, ext[i] = old[i] ++ [(d, t)] ∧ i ∈ alive) ∧
    ∀ tr ∈ fresh, ∃ d, tr = [(d, t)]

theorem modify_append_left_aux {β : Type} (f : β → β) (l₁ l₂ : List β) (i : Nat) (h : i < l₁.length) :
    (l₁ ++ l₂).modify i f = l₁.modify i f ++ l₂ := by
  induction l₁ generalizing i with
  | nil => simp at h
  | cons a l ih =>
    cases i with
    | zero => simp
    | succ i => simp [ih i (by simpa using h)]

theorem lastOf_append_left (ext fresh : List (Track τ)) (i : Nat) (h : i < ext.length) :
    lastOf (ext ++ fresh) i = lastId ext[i] := by
  simp [lastOf, List.getD, List.getElem?_append_left h, List.getElem?_eq_getElem h]

theorem lastId_snoc (tr : Track τ) (d : Nat) (t : τ) : lastId (tr ++ [(d, t)]) = some d := by
  simp [lastId]

theorem procDroplet_inv (ov : Nat → Nat → Bool) (alive : List Nat) (t : τ) (old : List (Track τ))
    (done : List Nat) (cur : List (Track τ)) (d' : Nat)
    (hal : ∀ i ∈ alive, i < old.length)
    (hno : ∀ d ∈ done, ov d d' = false)
    (hinv : OvInv t alive old done cur) :
    OvInv t alive old (done ++ [d']) (procDroplet ov alive t cur d') := by
  obtain ⟨ext, fresh, rfl, hlen, hext, hfresh⟩ := hinv
  unfold procDroplet
  split
  · rename_i i hi
    have hmem : i ∈ hits ov alive (ext ++ fresh) d' := by rw [hi]; exact List.mem_singleton.mpr rfl
    have hia : i ∈ alive := hits_sub ov alive _ d' i hmem
    have hio : i < old.length := hal i hia
    have hie : i < ext.length := by omega
    -- the hit track has not been extended in this frame
    have hnot : ext[i] = old[i] := by
      rcases hext i hio hie with h | ⟨d, hd, h, _⟩
      · exact h
      · exfalso
        simp only [hits, List.mem_filter] at hmem
        have hl : lastOf (ext ++ fresh) i = some d := by
          rw [lastOf_append_left ext fresh i hie, h, lastId_snoc]
        rw [hl] at hmem
        simp [hno d hd] at hmem
    refine ⟨ext.modify i (· ++ [(d', t)]), fresh, ?_, by simpa using hlen, ?_, hfresh⟩
    · exact modify_append_left_aux _ ext fresh i hie
    · intro j hj hj'
      have hj'' : j < ext.length := by simpa using hj'
      rw [DV.C06.modify_getElem ext _ i j hj' hj'']
      by_cases hij : i = j
      · subst hij
        rw [if_pos rfl]
        exact Or.inr ⟨d', by simp, by rw [hnot], hia⟩
      · rw [if_neg hij]
        rcases hext j hj hj'' with h | ⟨d, hd, h, ha⟩
        · exact Or.inl h
        · exact Or.inr ⟨d, by simp [hd], h, ha⟩
  · refine ⟨ext, fresh ++ [[(d', t)]], by simp, hlen, ?_, ?_⟩
    · intro j hj hj'
      rcases hext j hj hj' with h | ⟨d, hd, h, ha⟩
      · exact Or.inl h
      · exact Or.inr ⟨d, by simp [hd], h, ha⟩
    · intro tr htr
      rcases List.mem_append.mp htr with h | h
      · exact hfresh tr h
      · exact ⟨d', by simpa using h⟩

theorem foldl_procDroplet_inv (ov : Nat → Nat → Bool) (alive : List Nat) (t : τ) (old : List (Track τ))
    (hal : ∀ i ∈ alive, i < old.length) (todo : List Nat) (done : List Nat) (cur : List (Track τ))
    (hno : ∀ d ∈ done ++ todo, ∀ d' ∈ done ++ todo, d ≠ d' → ov d d' = false)
    (hnd : (done ++ todo).Nodup)
    (hinv : OvInv t alive old done cur) :
    OvInv t alive old (done ++ todo) (todo.foldl (procDroplet ov alive t) cur) := by
  induction todo generalizing done cur with
  | nil => simpa using hinv
  | cons d' todo ih =>
    simp only [List.foldl_cons]
    have hstep := procDroplet_inv ov alive t old done cur d' hal (by
      intro d hd
      apply hno d (by simp [hd]) d' (by simp)
      intro e; subst e
      have := List.nodup_append.mp hnd
      exact this.2.2 d hd d (by simp) rfl) hinv
    have := ih (done ++ [d']) _ (by simpa using hno) (by simpa using hnd) hstep
    simpa using this

/-- **Overlap method, frames whose droplets do not overlap one another: every existing track is
kept or extended by exactly one droplet of the frame (only tracks that ended at the previous
time), every other droplet starts a singleton track.** -/
theorem stepOverlap_shape (ov : Nat → Nat → Bool) (tracks : List (Track τ)) (tlast : Option τ) (t : τ)
    (ds : List Nat) (hnd : ds.Nodup) (hno : ∀ d ∈ ds, ∀ d' ∈ ds, d ≠ d' → ov d d' = false) :
    StepShape t (aliveIdx tracks tlast) tracks (stepOverlap ov tracks tlast t ds) := by
  have h0 : OvInv t (aliveIdx tracks tlast) tracks [] tracks :=
    ⟨tracks, [], by simp, rfl, fun i _ _ => Or.inl rfl, by simp⟩
  obtain ⟨ext, fresh, hcur, hlen, hext, hfresh⟩ :=
    foldl_procDroplet_inv ov (aliveIdx tracks tlast) t tracks (fun i hi => mem_aliveIdx tracks tlast i hi)
      ds [] tracks (by simpa using hno) (by simpa using hnd) h0
  refine ⟨ext, fresh, hcur, hlen, ?_, hfresh⟩
  intro i h h'
  rcases hext i h h' with he | ⟨d, _, he, ha⟩
  · exact ⟨Or.inl he, fun _ => he⟩
  · exact ⟨Or.inr ⟨d, he⟩, fun hna => absurd ha hna⟩

/-! ### global statement: with distinct frame times every track covers a gap-free run of
consecutive frames, one droplet per frame -/

/-- the times of a track -/
def times (tr : Track τ) : List τ := tr.map (·.2)

/-- every track is non-empty and its times are a contiguous block of the frame times -/
def GapFree (ts : List τ) (trs : List (Track τ)) : Prop :=
  ∀ tr ∈ trs, tr ≠ [] ∧ times tr <:+: ts

theorem endOf_times (tr : Track τ) : endOf tr = (times tr).getLast? := by
  simp [endOf, times, List.getLast?_map]

theorem alive_end (tracks : List (Track τ)) (tlast : Option τ) (i : Nat) (h : i ∈ aliveIdx tracks tlast)
    (hi : i < tracks.length) : endOf tracks[i] = tlast ∧ tracks[i] ≠ [] := by
  simp only [aliveIdx, List.mem_filter, List.mem_range, Bool.and_eq_true, decide_eq_true_eq,
    Bool.not_eq_true', List.isEmpty_eq_false_iff] at h
  have hg : tracks.getD i [] = tracks[i] := by simp [List.getD, List.getElem?_eq_getElem hi]
  rw [hg] at h
  exact ⟨h.2.1, h.2.2⟩

/-- in a duplicate-free list a block that ends with the list's last element is a suffix -/
theorem suffix_of_infix_last (ts l : List τ) (hnd : ts.Nodup) (hl : l ≠ []) (hin : l <:+: ts)
    (hlast : l.getLast? = ts.getLast?) : l <:+ ts := by
  obtain ⟨pre, suf, rfl⟩ := hin
  rcases List.eq_nil_or_concat suf with rfl | ⟨suf', x, rfl⟩
  · exact ⟨pre, by simp⟩
  · exfalso
    rw [List.concat_eq_append] at hlast hnd
    have h1 : (pre ++ l ++ (suf' ++ [x])).getLast? = some x := by
      rw [← List.append_assoc]; simp
    rw [h1] at hlast
    have hx : x ∈ l := List.mem_of_getLast? hlast
    have := List.nodup_append.mp hnd
    exact this.2.2 x (by simp [hx]) x (by simp) rfl

theorem gapfree_step (ts : List τ) (t : τ) (hnd : (ts ++ [t]).Nodup) (old new : List (Track τ))
    (hshape : StepShape t (aliveIdx old ts.getLast?) old new) (hold : GapFree ts old) :
    GapFree (ts ++ [t]) new := by
  obtain ⟨ext, fresh, rfl, hlen, hext, hfresh⟩ := hshape
  have hnd0 : ts.Nodup := (List.nodup_append.mp hnd).1
  intro tr htr
  rcases List.mem_append.mp htr with h | h
  · obtain ⟨i, hi, rfl⟩ := List.getElem_of_mem h
    have hio : i < old.length := by omega
    obtain ⟨hone, hdead⟩ := hext i hio hi
    obtain ⟨hne, hin⟩ := hold old[i] (List.getElem_mem hio)
    rcases hone with he | ⟨d, he⟩
    · rw [he]
      exact ⟨hne, hin.trans ⟨[], [t], by simp⟩⟩
    · by_cases ha : i ∈ aliveIdx old ts.getLast?
      · obtain ⟨hend, _⟩ := alive_end old _ i ha hio
        rw [endOf_times] at hend
        have hsuf := suffix_of_infix_last ts (times old[i]) hnd0 (by simpa [times] using hne) hin hend
        obtain ⟨pre, hpre⟩ := hsuf
        rw [he]
        refine ⟨by simp, ⟨pre, [], ?_⟩⟩
        simp [times, ← hpre]
      · rw [hdead ha]
        exact ⟨hne, hin.trans ⟨[], [t], by simp⟩⟩
  · obtain ⟨d, rfl⟩ := hfresh tr h
    exact ⟨by simp, ⟨ts, [], by simp [times]⟩⟩

/-- what the property assumes of a frame: with the overlap method its droplets are distinct and do
not overlap one another (the distance method needs nothing) -/
def FrameOK (m : Method α) (fr : τ × List Nat) : Prop :=
  match m with
  | .overlap ov => fr.2.Nodup ∧ ∀ d ∈ fr.2, ∀ d' ∈ fr.2, d ≠ d' → ov d d' = false
  | .distance _ _ _ => True

theorem stepFrame_gapfree (m : Method α) (ts : List τ) (st st' : List (Track τ) × Option τ)
    (fr : τ × List Nat) (hnd : (ts ++ [fr.1]).Nodup) (hok : FrameOK m fr) (h2 : st.2 = ts.getLast?)
    (hg : GapFree ts st.1) (h : stepFrame m st fr = .ok st') :
    st'.2 = (ts ++ [fr.1]).getLast? ∧ GapFree (ts ++ [fr.1]) st'.1 := by
  cases m with
  | overlap ov =>
    simp only [stepFrame, Except.ok.injEq] at h
    subst h
    refine ⟨by simp, ?_⟩
    apply gapfree_step ts fr.1 hnd st.1 _ _ hg
    rw [← h2]
    exact stepOverlap_shape ov st.1 st.2 fr.1 fr.2 hok.1 hok.2
  | distance dist maxd e =>
    simp only [stepFrame] at h
    split at h
    · rename_i trs htrs
      simp only [Except.ok.injEq] at h
      subst h
      refine ⟨by simp, ?_⟩
      apply gapfree_step ts fr.1 hnd st.1 _ _ hg
      rw [← h2]
      exact stepDistance_shape dist maxd e st.1 st.2 fr.1 fr.2 trs htrs
    · cases h

theorem foldlM_gapfree (m : Method α) (frames : List (τ × List Nat)) :
    ∀ (done : List τ) (st st' : List (Track τ) × Option τ),
      (done ++ frames.map (·.1)).Nodup → (∀ fr ∈ frames, FrameOK m fr) → st.2 = done.getLast? →
      GapFree done st.1 → frames.foldlM (stepFrame m) st = .ok st' →
      GapFree (done ++ frames.map (·.1)) st'.1 := by
  induction frames with
  | nil =>
    intro done st st' _ _ _ hg h
    simp only [List.foldlM_nil, pure, Except.pure, Except.ok.injEq] at h
    subst h; simpa using hg
  | cons fr frames ih =>
    intro done st st' hnd hok h2 hg h
    simp only [List.foldlM_cons, bind, Except.bind] at h
    split at h
    · cases h
    · rename_i st1 hst1
      have hnd1 : (done ++ [fr.1]).Nodup := by
        have : (done ++ [fr.1] ++ frames.map (·.1)).Nodup := by simpa using hnd
        exact (List.nodup_append.mp this).1
      obtain ⟨h2', hg'⟩ := stepFrame_gapfree m done st st1 fr hnd1 (hok fr (by simp)) h2 hg hst1
      have := ih (done ++ [fr.1]) st1 st' (by simpa using hnd) (fun f hf => hok f (by simp [hf])) h2' hg' h
      simpa using this

/-- **Gap-free runs, one droplet per frame.**  For frames with distinct times (the property
quantifies over strictly increasing ones) whose droplets do not overlap one another, every returned
track is non-empty, its times are a CONTIGUOUS block of the sequence of frame times, and therefore
no time occurs twice in a track. -/
theorem track_gap_free (m : Method α) (frames : List (τ × List Nat)) (trs : List (Track τ))
    (hnd : (frames.map (·.1)).Nodup) (hok : ∀ fr ∈ frames, FrameOK m fr)
    (h : trackAll m frames = .ok trs) :
    ∀ tr ∈ trs, tr ≠ [] ∧ times tr <:+: frames.map (·.1) ∧ (times tr).Nodup := by
  unfold trackAll at h
  cases hf : frames.foldlM (stepFrame m) (([] : List (Track τ)), (none : Option τ)) with
  | error s => rw [hf] at h; cases h
  | ok st' =>
    rw [hf] at h
    simp only [Except.map, Except.ok.injEq] at h
    subst h
    have := foldlM_gapfree m frames [] _ st' (by simpa using hnd) hok (by simp)
      (by intro tr htr; cases htr) hf
    intro tr htr
    obtain ⟨hne, hin⟩ := this tr htr
    have hin' : times tr <:+: frames.map (·.1) := by simpa using hin
    exact ⟨hne, hin', hin'.sublist.nodup hnd⟩

/-- the hypothesis on the times is needed: with a repeated frame time a track that ended earlier
is taken for alive and gets a gap -/
example :
    trackAll (τ := Nat) (α := ℚ) (.distance (fun _ _ => 0) none false) [(1, [0]), (2, []), (1, []), (3, [1])]
      = .ok [[(0, 1), (1, 3)]] := by decide +kernel

/-- non-vacuity / sanity: a concrete history with a birth, a death and an empty frame -/
example :
    trackAll (τ := Nat) (α := ℚ) (.distance (fun a b => if a + 1 = b then 1 else 5) (some 2) false)
      [(0, [0]), (1, [1, 2]), (2, []), (3, [3])]
      = .ok [[(0, 0), (1, 1)], [(2, 1)], [(3, 3)]] := by decide +kernel

end DV.C06
