/-
  C07 — Tracks follow droplet identity.
  Theorems about the matching rules of `DV.Track` (Model/Track.lean): overlap method
  (`procDroplet`/`stepOverlap`) and distance method (`greedy`), for every overlap table, distance
  table and cut-off.  The metric itself (periodic when a grid is given) enters through the tables,
  which the correspondence check computes with the real `overlaps` / `cdist` calls and compares
  with an independent periodic metric.
-/
import DropletsVerif.Model.Track
import DropletsVerif.Props.C06
import Mathlib.Tactic

namespace DV.C07
open DV.Track DV.Overlap DV.C06

variable {τ : Type} [DecidableEq τ]
variable {α : Type} [LinearOrder α]

/-! ### overlap matching -/

/-- consecutive droplets of a track overlap -/
def Linked (ov : Nat → Nat → Bool) : Track τ → Prop
  | [] => True
  | [_] => True
  | a :: b :: rest => ov a.1 b.1 = true ∧ Linked ov (b :: rest)

theorem linked_snoc (ov : Nat → Nat → Bool) (tr : Track τ) (a d : Nat) (t : τ)
    (hl : Linked ov tr) (hlast : lastId tr = some a) (hov : ov a d = true) :
    Linked ov (tr ++ [(d, t)]) := by
  induction tr with
  | nil => simp [lastId] at hlast
  | cons x tr ih =>
    cases tr with
    | nil =>
      simp only [lastId, List.getLast?_singleton, Option.map_some, Option.some.injEq] at hlast
      simp only [List.cons_append, List.nil_append, Linked, and_true]
      rw [hlast]; exact hov
    | cons y tr =>
      simp only [Linked] at hl
      have hlast' : lastId (y :: tr) = some a := by
        simpa [lastId, List.getLast?_cons_cons] using hlast
      exact ⟨hl.1, ih hl.2 hlast'⟩

theorem mem_modify {β : Type} (f : β → β) (l : List β) (i : Nat) (x : β) (h : x ∈ l.modify i f) :
    x ∈ l ∨ ∃ (hi : i < l.length), x = f l[i] := by
  obtain ⟨j, hj, rfl⟩ := List.getElem_of_mem h
  have hj' : j < l.length := by simpa using hj
  rw [List.getElem_modify]
  by_cases hij : i = j
  · subst hij; exact Or.inr ⟨hj', by simp⟩
  · simp only [hij, if_false]; exact Or.inl (List.getElem_mem _)

/-- one droplet: linkedness of all tracks is preserved -/
theorem procDroplet_linked (ov : Nat → Nat → Bool) (alive : List Nat) (t : τ) (tracks : List (Track τ))
    (d : Nat) (h : ∀ tr ∈ tracks, Linked ov tr) :
    ∀ tr ∈ procDroplet ov alive t tracks d, Linked ov tr := by
  unfold procDroplet
  split
  · rename_i i hi
    have hmem : i ∈ hits ov alive tracks d := by rw [hi]; exact List.mem_singleton.mpr rfl
    simp only [hits, List.mem_filter] at hmem
    intro tr htr
    rcases mem_modify _ tracks i tr htr with h' | ⟨hlt, rfl⟩
    · exact h tr h'
    · have hl : lastOf tracks i = lastId tracks[i] := by
        simp [lastOf, List.getD, List.getElem?_eq_getElem hlt]
      cases ha : lastId tracks[i] with
      | none => rw [hl, ha] at hmem; simp at hmem
      | some a =>
        rw [hl, ha] at hmem
        exact linked_snoc ov _ a d t (h _ (List.getElem_mem _)) ha hmem.2
  · intro tr htr
    rcases List.mem_append.mp htr with h' | h'
    · exact h tr h'
    · have : tr = [(d, t)] := by simpa using h'
      subst this; trivial

/-- **With overlap matching, consecutive droplets of a track always overlap** — for every time
course and every overlap table. -/
theorem overlap_links_overlap (ov : Nat → Nat → Bool) (frames : List (τ × List Nat))
    (trs : List (Track τ)) (h : trackAll (α := α) (.overlap ov) frames = .ok trs) :
    ∀ tr ∈ trs, Linked ov tr := by
  have key : ∀ (frames : List (τ × List Nat)) (st st' : List (Track τ) × Option τ),
      (∀ tr ∈ st.1, Linked ov tr) →
      frames.foldlM (stepFrame (α := α) (.overlap ov)) st = .ok st' → ∀ tr ∈ st'.1, Linked ov tr := by
    intro frames
    induction frames with
    | nil =>
      intro st st' hst hf
      simp only [List.foldlM_nil, pure, Except.pure] at hf
      cases hf; exact hst
    | cons fr frames ih =>
      intro st st' hst hf
      simp only [List.foldlM_cons, bind, Except.bind, stepFrame] at hf
      refine ih _ st' ?_ hf
      simp only [stepOverlap]
      generalize aliveIdx st.1 st.2 = alive
      generalize st.1 = cur at hst
      induction fr.2 generalizing cur with
      | nil => simpa using hst
      | cons d ds ihd =>
        simp only [List.foldl_cons]
        exact ihd _ (procDroplet_linked ov alive fr.1 cur d hst)
  unfold trackAll at h
  cases h' : frames.foldlM (stepFrame (α := α) (.overlap ov)) (([] : List (Track τ)), (none : Option τ)) with
  | error e => rw [h'] at h; cases h
  | ok st' =>
    rw [h'] at h
    simp only [Except.map] at h
    cases h
    exact key frames _ st' (by simp) h'

/-- **A droplet overlapping no alive track starts a new track**, and so does one that overlaps
several; a droplet overlapping exactly one alive track continues that track. -/
theorem overlap_rule (ov : Nat → Nat → Bool) (alive : List Nat) (t : τ) (tracks : List (Track τ)) (d : Nat) :
    (hits ov alive tracks d = [] → procDroplet ov alive t tracks d = tracks ++ [[(d, t)]]) ∧
    (2 ≤ (hits ov alive tracks d).length → procDroplet ov alive t tracks d = tracks ++ [[(d, t)]]) ∧
    (∀ i, hits ov alive tracks d = [i] →
        procDroplet ov alive t tracks d = tracks.modify i (· ++ [(d, t)])) := by
  refine ⟨?_, ?_, ?_⟩
  · intro h; simp [procDroplet, h]
  · intro h
    unfold procDroplet
    split
    · rename_i i hi; rw [hi] at h; simp at h
    · rfl
  · intro i h; simp [procDroplet, h]

/-- the hit list is exactly the alive tracks whose CURRENT last droplet overlaps `d` -/
theorem mem_hits (ov : Nat → Nat → Bool) (alive : List Nat) (tracks : List (Track τ)) (d i : Nat) :
    i ∈ hits ov alive tracks d ↔ i ∈ alive ∧ ∃ a, lastOf tracks i = some a ∧ ov a d = true := by
  simp only [hits, List.mem_filter]
  constructor
  · rintro ⟨hi, h⟩
    cases ha : lastOf tracks i with
    | none => rw [ha] at h; simp at h
    | some a => rw [ha] at h; exact ⟨hi, a, rfl, h⟩
  · rintro ⟨hi, a, ha, hov⟩
    exact ⟨hi, by rw [ha]; exact hov⟩

/-! #### one-to-one overlap relations are followed exactly -/

/-- does the droplet that track `i` ended with at frame start overlap droplet `d`? -/
def relB (ov : Nat → Nat → Bool) (old : List (Track τ)) (i d : Nat) : Bool :=
  match lastOf old i with
  | some a => ov a d
  | none => false

/-- droplets of the frame without any overlapping alive track -/
def unmatched (ov : Nat → Nat → Bool) (alive : List Nat) (old : List (Track τ)) (ds : List Nat) : List Nat :=
  ds.filter fun d => !(alive.any fun i => relB ov old i d)

/-- loop invariant: after the droplets `done`, track `i` has been extended by `d` iff `i` is alive
and overlaps `d`; the new tracks are the unmatched droplets, in order -/
def OneInv (ov : Nat → Nat → Bool) (t : τ) (alive : List Nat) (old : List (Track τ)) (done : List Nat)
    (cur : List (Track τ)) : Prop :=
  ∃ ext fresh, cur = ext ++ fresh ∧ ext.length = old.length ∧
    (∀ i (h : i < old.length) (h' : i < ext.length),
        (ext[i] = old[i] ∧ ∀ d ∈ done, ¬ (i ∈ alive ∧ relB ov old i d = true)) ∨
        (∃ d ∈ done, i ∈ alive ∧ relB ov old i d = true ∧ ext[i] = old[i] ++ [(d, t)])) ∧
    fresh = (unmatched ov alive old done).map fun d => [(d, t)]

theorem lastOf_old_eq (old : List (Track τ)) (i : Nat) (h : i < old.length) : lastOf old i = lastId old[i] := by
  simp [lastOf, List.getD, List.getElem?_eq_getElem h]

theorem procDroplet_one (ov : Nat → Nat → Bool) (alive : List Nat) (t : τ) (old : List (Track τ))
    (done : List Nat) (cur : List (Track τ)) (d' : Nat)
    (hal : ∀ i ∈ alive, i < old.length) (hnd : alive.Nodup)
    (hno : ∀ d ∈ done, ov d d' = false)
    (hfun : ∀ i ∈ alive, ∀ j ∈ alive, relB ov old i d' = true → relB ov old j d' = true → i = j)
    (hinj : ∀ i ∈ alive, ∀ d ∈ done, relB ov old i d = true → relB ov old i d' = false)
    (hinv : OneInv ov t alive old done cur) :
    OneInv ov t alive old (done ++ [d']) (procDroplet ov alive t cur d') := by
  obtain ⟨ext, fresh, rfl, hlen, hext, hfresh⟩ := hinv
  -- the hit list is the list of alive tracks related to d'
  have hhits : hits ov alive (ext ++ fresh) d' = alive.filter (fun i => relB ov old i d') := by
    unfold hits
    apply List.filter_congr
    intro i hi
    have hio := hal i hi
    have hie : i < ext.length := by omega
    rw [DV.C06.lastOf_append_left ext fresh i hie]
    rcases hext i hio hie with ⟨he, _⟩ | ⟨d, hd, _, hr, he⟩
    · rw [he, ← lastOf_old_eq old i hio]; rfl
    · rw [he, DV.C06.lastId_snoc, hinj i hi d hd hr]
      exact hno d hd
  unfold procDroplet
  rw [hhits]
  have hfnd : (alive.filter (fun i => relB ov old i d')).Nodup := hnd.filter _
  cases hL : alive.filter (fun i => relB ov old i d') with
  | nil =>
    -- no partner: new track
    have hnone : ∀ i ∈ alive, relB ov old i d' = false := by
      intro i hi
      by_contra hc
      have : i ∈ alive.filter (fun i => relB ov old i d') := List.mem_filter.mpr ⟨hi, by simpa using hc⟩
      rw [hL] at this; cases this
    refine ⟨ext, fresh ++ [[(d', t)]], by simp, hlen, ?_, ?_⟩
    · intro j hj hj'
      rcases hext j hj hj' with ⟨he, hn⟩ | ⟨d, hd, ha, hr, he⟩
      · left
        refine ⟨he, ?_⟩
        intro d hd
        rcases List.mem_append.mp hd with h | h
        · exact hn d h
        · have : d = d' := by simpa using h
          rw [this]; intro ⟨ha, hr⟩; rw [hnone j ha] at hr; cases hr
      · exact Or.inr ⟨d, by simp [hd], ha, hr, he⟩
    · have hany : (alive.any fun i => relB ov old i d') = false := by
        rw [List.any_eq_false]; intro i hi; simp [hnone i hi]
      simp [unmatched, List.filter_append, hfresh, hany]
  | cons i rest =>
    cases rest with
    | cons j rest' =>
      -- two partners contradict the hypothesis that the relation is a function of the droplet
      exfalso
      have hi : i ∈ alive.filter (fun i => relB ov old i d') := by rw [hL]; simp
      have hj : j ∈ alive.filter (fun i => relB ov old i d') := by rw [hL]; simp
      have hij := hfun i (List.mem_filter.mp hi).1 j (List.mem_filter.mp hj).1
        (by simpa using (List.mem_filter.mp hi).2) (by simpa using (List.mem_filter.mp hj).2)
      rw [hL] at hfnd
      simp [hij] at hfnd
    | nil =>
      have hi : i ∈ alive.filter (fun i => relB ov old i d') := by rw [hL]; simp
      have hia := (List.mem_filter.mp hi).1
      have hir : relB ov old i d' = true := by simpa using (List.mem_filter.mp hi).2
      have hio := hal i hia
      have hie : i < ext.length := by omega
      have hnot : ext[i] = old[i] := by
        rcases hext i hio hie with ⟨he, _⟩ | ⟨d, hd, _, hr, _⟩
        · exact he
        · rw [hinj i hia d hd hr] at hir; cases hir
      have hother : ∀ j ∈ alive, j ≠ i → relB ov old j d' = false := by
        intro j hj hne
        by_contra hc
        have : j ∈ alive.filter (fun i => relB ov old i d') := List.mem_filter.mpr ⟨hj, by simpa using hc⟩
        rw [hL] at this
        exact hne (by simpa using this)
      refine ⟨ext.modify i (· ++ [(d', t)]), fresh, DV.C06.modify_append_left_aux _ ext fresh i hie,
        by simpa using hlen, ?_, ?_⟩
      · intro j hj hj'
        have hj'' : j < ext.length := by simpa using hj'
        rw [DV.C06.modify_getElem ext _ i j hj' hj'']
        by_cases hij : i = j
        · subst hij
          rw [if_pos rfl]
          exact Or.inr ⟨d', by simp, hia, hir, by rw [hnot]⟩
        · rw [if_neg hij]
          rcases hext j hj hj'' with ⟨he, hn⟩ | ⟨d, hd, ha, hr, he⟩
          · left
            refine ⟨he, ?_⟩
            intro d hd
            rcases List.mem_append.mp hd with h | h
            · exact hn d h
            · have : d = d' := by simpa using h
              rw [this]; intro ⟨ha, hr⟩
              rw [hother j ha (fun e => hij e.symm)] at hr; cases hr
          · exact Or.inr ⟨d, by simp [hd], ha, hr, he⟩
      · have hany : (alive.any fun i => relB ov old i d') = true := by
          rw [List.any_eq_true]; exact ⟨i, hia, hir⟩
        simp [unmatched, List.filter_append, hfresh, hany]

/-- **Whenever the overlap relation between the tracks that ended in the previous frame and the
droplets of the current frame is one-to-one (and the droplets of the frame do not overlap one
another), the tracks follow exactly that relation**: track `i` is extended by `d` iff they overlap,
and exactly the droplets without partner start new tracks, in order. -/
theorem overlap_one_to_one (ov : Nat → Nat → Bool) (old : List (Track τ)) (tlast : Option τ) (t : τ)
    (ds : List Nat) (hnd : ds.Nodup)
    (hno : ∀ d ∈ ds, ∀ d' ∈ ds, d ≠ d' → ov d d' = false)
    (hfun : ∀ d ∈ ds, ∀ i ∈ aliveIdx old tlast, ∀ j ∈ aliveIdx old tlast,
      relB ov old i d = true → relB ov old j d = true → i = j)
    (hinj : ∀ i ∈ aliveIdx old tlast, ∀ d ∈ ds, ∀ d' ∈ ds,
      relB ov old i d = true → relB ov old i d' = true → d = d') :
    OneInv ov t (aliveIdx old tlast) old ds (stepOverlap ov old tlast t ds) := by
  have key : ∀ (todo done : List Nat) (cur : List (Track τ)), done ++ todo = ds →
      OneInv ov t (aliveIdx old tlast) old done cur →
      OneInv ov t (aliveIdx old tlast) old (done ++ todo)
        (todo.foldl (procDroplet ov (aliveIdx old tlast) t) cur) := by
    intro todo
    induction todo with
    | nil => intro done cur _ h; simpa using h
    | cons d' todo ih =>
      intro done cur hsplit hinv
      have hmem : ∀ x ∈ done, x ∈ ds := fun x hx => by rw [← hsplit]; simp [hx]
      have hd' : d' ∈ ds := by rw [← hsplit]; simp
      have hnd' : (done ++ d' :: todo).Nodup := by rw [hsplit]; exact hnd
      have hne : ∀ x ∈ done, x ≠ d' := by
        intro x hx e
        subst e
        have := List.nodup_append.mp hnd'
        exact this.2.2 x hx x (by simp) rfl
      have hstep := procDroplet_one ov (aliveIdx old tlast) t old done cur d'
        (fun i hi => DV.C06.mem_aliveIdx old tlast i hi) (DV.C06.aliveIdx_nodup old tlast)
        (fun d hd => hno d (hmem d hd) d' hd' (hne d hd))
        (fun i hi j hj => hfun d' hd' i hi j hj)
        (fun i hi d hd hr => by
          by_contra hc
          have := hinj i hi d (hmem d hd) d' hd' hr (by simpa using hc)
          exact hne d hd this)
        hinv
      have := ih (done ++ [d']) _ (by simpa using hsplit) hstep
      simpa using this
  have h0 : OneInv ov t (aliveIdx old tlast) old [] old :=
    ⟨old, [], by simp, rfl, fun i _ _ => Or.inl ⟨rfl, by simp⟩, by simp [unmatched]⟩
  simpa [stepOverlap] using key ds [] old (by simp) h0

/-! ### distance matching -/

theorem mem_cands (D : Nat → Nat → α) (maxd : Option α) (rows cols : List Nat) (i j : Nat) :
    (i, j) ∈ cands D maxd rows cols ↔ i ∈ rows ∧ j ∈ cols ∧ within maxd (D i j) = true := by
  simp only [cands, List.mem_flatMap, List.mem_map, List.mem_filter]
  constructor
  · rintro ⟨a, ha, b, ⟨hb, hw⟩, hab⟩
    cases hab; exact ⟨ha, hb, hw⟩
  · rintro ⟨ha, hb, hw⟩
    exact ⟨i, ha, j, ⟨hb, hw⟩, rfl⟩

theorem within_iff (maxd : Option α) (x : α) :
    within maxd x = true ↔ ∀ m, maxd = some m → x ≤ m := by
  cases maxd with
  | none => simp [within]
  | some m => simp [within]

theorem firstMin_some_mem (D : Nat → Nat → α) (ps : List (Nat × Nat)) (p : Nat × Nat)
    (h : firstMin D ps = some p) : p ∈ ps ∧ ∀ q ∈ ps, D p.1 p.2 ≤ D q.1 q.2 := by
  rcases DV.C10.firstMin_spec D ps with ⟨_, hn⟩ | ⟨p', hp, hs, hall⟩
  · rw [hn] at h; cases h
  · rw [hs] at h; cases h; exact ⟨hp, hall⟩

theorem firstMin_none (D : Nat → Nat → α) (ps : List (Nat × Nat)) (h : firstMin D ps = none) : ps = [] := by
  rcases DV.C10.firstMin_spec D ps with ⟨he, _⟩ | ⟨p', _, hs, _⟩
  · exact he
  · rw [hs] at h; cases h

/-- **Linked droplets are never farther apart than the cut-off** -/
theorem distance_links_within_cutoff (D : Nat → Nat → α) (maxd : Option α) (fuel : Nat) (rows cols : List Nat) :
    ∀ l ∈ (greedy D maxd fuel rows cols).1, ∀ m, maxd = some m → D l.1 l.2 ≤ m := by
  induction fuel generalizing rows cols with
  | zero => simp [greedy]
  | succ fuel ih =>
    unfold greedy
    cases h : firstMin D (cands D maxd rows cols) with
    | none => simp
    | some p =>
      obtain ⟨i, j⟩ := p
      intro l hl
      rcases List.mem_cons.mp hl with rfl | hl'
      · have := (firstMin_some_mem D _ _ h).1
        exact (within_iff maxd _).mp ((mem_cands D maxd rows cols i j).mp this).2.2
      · exact ih _ _ l hl'

/-- **Maximality: after the matching no unmatched track (row) and unmatched droplet (column) are
within the cut-off** — no track ends in a frame in which a new track starts within the cut-off.
`cols.length < fuel` is what the code supplies (`len(emulsion) + 1` iterations suffice). -/
theorem distance_maximal (D : Nat → Nat → α) (maxd : Option α) (fuel : Nat) (rows cols : List Nat)
    (hf : cols.length < fuel) (hr : rows.Nodup) :
    ∀ i ∈ rows, i ∉ (greedy D maxd fuel rows cols).1.map (·.1) →
      ∀ j ∈ (greedy D maxd fuel rows cols).2, within maxd (D i j) = false := by
  induction fuel generalizing rows cols with
  | zero => omega
  | succ fuel ih =>
    unfold greedy
    cases h : firstMin D (cands D maxd rows cols) with
    | none =>
      intro i hi _ j hj
      have he := firstMin_none D _ h
      by_contra hw
      have : (i, j) ∈ cands D maxd rows cols :=
        (mem_cands D maxd rows cols i j).mpr ⟨hi, hj, by simpa using hw⟩
      rw [he] at this; cases this
    | some p =>
      obtain ⟨i0, j0⟩ := p
      have hm := (mem_cands D maxd rows cols i0 j0).mp (firstMin_some_mem D _ _ h).1
      intro i hi hnot j hj
      simp only [List.map_cons, List.mem_cons, not_or] at hnot
      have hlen : (cols.erase j0).length < fuel := by
        have := List.length_pos_of_mem hm.2.1
        rw [List.length_erase_of_mem hm.2.1]; omega
      exact ih (rows.erase i0) (cols.erase j0) hlen (hr.erase i0) i
        ((List.Nodup.mem_erase_iff hr).mpr ⟨hnot.1, hi⟩) hnot.2 j hj

/-- specification of "repeatedly join the closest remaining pair" (independent of the loop) -/
inductive IsGreedy (D : Nat → Nat → α) (maxd : Option α) : List Nat → List Nat → List (Nat × Nat) → Prop
  | done (rows cols) : cands D maxd rows cols = [] → IsGreedy D maxd rows cols []
  | step (rows cols) (i j) (links) :
      (i, j) ∈ cands D maxd rows cols →
      (∀ q ∈ cands D maxd rows cols, D i j ≤ D q.1 q.2) →
      IsGreedy D maxd (rows.erase i) (cols.erase j) links →
      IsGreedy D maxd rows cols ((i, j) :: links)

/-- the loop realises the specification -/
theorem distance_greedy (D : Nat → Nat → α) (maxd : Option α) (fuel : Nat) (rows cols : List Nat)
    (hf : cols.length < fuel) : IsGreedy D maxd rows cols (greedy D maxd fuel rows cols).1 := by
  induction fuel generalizing rows cols with
  | zero => omega
  | succ fuel ih =>
    unfold greedy
    cases h : firstMin D (cands D maxd rows cols) with
    | none => exact IsGreedy.done _ _ (firstMin_none D _ h)
    | some p =>
      obtain ⟨i, j⟩ := p
      obtain ⟨hmem, hmin⟩ := firstMin_some_mem D _ _ h
      have hm := (mem_cands D maxd rows cols i j).mp hmem
      exact IsGreedy.step _ _ i j _ hmem hmin
        (ih _ _ (by have := List.length_pos_of_mem hm.2.1; rw [List.length_erase_of_mem hm.2.1]; omega))

theorem cands_erase_sub (D : Nat → Nat → α) (maxd : Option α) (rows cols : List Nat) (i j : Nat) :
    ∀ q ∈ cands D maxd (rows.erase i) (cols.erase j), q ∈ cands D maxd rows cols := by
  intro q hq
  obtain ⟨a, b⟩ := q
  rw [mem_cands] at hq ⊢
  exact ⟨List.mem_of_mem_erase hq.1, List.mem_of_mem_erase hq.2.1, hq.2.2⟩

/-- **When all distances are distinct, the links are THE result of repeatedly joining the closest
remaining pair**: the specification has exactly one solution, and the loop computes it. -/
theorem distance_greedy_unique (D : Nat → Nat → α) (maxd : Option α) (rows cols : List Nat)
    (hinj : ∀ p ∈ cands D maxd rows cols, ∀ q ∈ cands D maxd rows cols, D p.1 p.2 = D q.1 q.2 → p = q)
    (l1 l2 : List (Nat × Nat)) (h1 : IsGreedy D maxd rows cols l1) (h2 : IsGreedy D maxd rows cols l2) :
    l1 = l2 := by
  induction h1 generalizing l2 with
  | done rows cols he =>
    cases h2 with
    | done => rfl
    | step _ _ i j links hm _ _ => rw [he] at hm; cases hm
  | step rows cols i j links hm hmin _ ih =>
    cases h2 with
    | done _ _ he => rw [he] at hm; cases hm
    | step _ _ i' j' links' hm' hmin' hrest' =>
      have hpq : (i, j) = (i', j') :=
        hinj _ hm _ hm' (le_antisymm (hmin _ hm') (hmin' _ hm))
      cases hpq
      have := ih (fun p hp q hq => hinj p (cands_erase_sub D maxd rows cols i j p hp) q
        (cands_erase_sub D maxd rows cols i j q hq)) links' hrest'
      rw [this]

/-- non-vacuity: two tracks, two droplets, crossing candidates; the closest pair wins -/
example :
    (greedy (α := ℚ) (fun i j => if i = 0 ∧ j = 10 then 3 else if i = 0 ∧ j = 11 then 1
        else if i = 1 ∧ j = 10 then 2 else 4) (some 3) 3 [0, 1] [10, 11]).1 = [(0, 11), (1, 10)] := by
  decide +kernel

end DV.C07
