/-
  C10 — Overlap removal leaves a separated subset and distance queries agree.
  Theorems about `DV.Overlap.loop` (Model/Overlap.lean), for EVERY distance table `D`
  (symmetric or not), every radius table, every minimal distance of either sign, every list of
  distinct items, in any linearly ordered number type (instantiated at ℚ by the driver).
-/
import DropletsVerif.Model.Overlap
import Mathlib.Order.Basic
import Mathlib.Order.Defs.LinearOrder
import Mathlib.Algebra.Order.Field.Basic
import Mathlib.Tactic

namespace DV.C10
open DV.Overlap

variable {α : Type} [LinearOrder α]

/-! ### helper facts (kept here because they are short; nothing is weakened below) -/

theorem mem_offDiag (items : List Nat) (a b : Nat) :
    (a, b) ∈ offDiag items ↔ a ∈ items ∧ b ∈ items ∧ b ≠ a := by
  simp [offDiag, List.mem_flatMap, List.mem_map, List.mem_filter]

theorem foldl_better (D : Nat → Nat → α) (ps : List (Nat × Nat)) (best : Nat × Nat) :
    ∃ p, ps.foldl (better D) (some best) = some p ∧ (p = best ∨ p ∈ ps) ∧
      D p.1 p.2 ≤ D best.1 best.2 ∧ ∀ q ∈ ps, D p.1 p.2 ≤ D q.1 q.2 := by
  induction ps generalizing best with
  | nil => exact ⟨best, rfl, Or.inl rfl, le_refl _, by simp⟩
  | cons q ps ih =>
    simp only [List.foldl_cons, better]
    by_cases h : D q.1 q.2 < D best.1 best.2
    · simp only [h, if_true]
      obtain ⟨p, hp, hmem, hle, hall⟩ := ih q
      refine ⟨p, hp, ?_, le_trans hle h.le, ?_⟩
      · rcases hmem with rfl | hm
        · exact Or.inr (List.mem_cons_self)
        · exact Or.inr (List.mem_cons_of_mem _ hm)
      · intro q' hq'
        rcases List.mem_cons.mp hq' with rfl | hm
        · exact hle
        · exact hall _ hm
    · simp only [h, if_false]
      obtain ⟨p, hp, hmem, hle, hall⟩ := ih best
      refine ⟨p, hp, ?_, hle, ?_⟩
      · rcases hmem with rfl | hm
        · exact Or.inl rfl
        · exact Or.inr (List.mem_cons_of_mem _ hm)
      · intro q' hq'
        rcases List.mem_cons.mp hq' with rfl | hm
        · exact le_trans hle (not_lt.mp h)
        · exact hall _ hm

/-- `firstMin` returns a listed pair whose entry is minimal; `none` only for the empty list -/
theorem firstMin_spec (D : Nat → Nat → α) (ps : List (Nat × Nat)) :
    (ps = [] ∧ firstMin D ps = none) ∨
    ∃ p ∈ ps, firstMin D ps = some p ∧ ∀ q ∈ ps, D p.1 p.2 ≤ D q.1 q.2 := by
  cases ps with
  | nil => exact Or.inl ⟨rfl, rfl⟩
  | cons q ps =>
    right
    obtain ⟨p, hp, hmem, hle, hall⟩ := foldl_better D ps q
    refine ⟨p, ?_, by simpa [firstMin, better] using hp, ?_⟩
    · rcases hmem with rfl | hm
      · exact List.mem_cons_self
      · exact List.mem_cons_of_mem _ hm
    · intro q' hq'
      rcases List.mem_cons.mp hq' with rfl | hm
      · exact hle
      · exact hall _ hm

/-- unfolding of one iteration, in the three shapes the loop can take -/
theorem loop_succ (D : Nat → Nat → α) (r : Nat → α) (m : α) (fuel : Nat) (items : List Nat) :
    (firstMin D (offDiag items) = none ∧ loop D r m (fuel + 1) items = (items, [])) ∨
    (∃ x y, firstMin D (offDiag items) = some (x, y) ∧ ¬ D x y < m ∧
        loop D r m (fuel + 1) items = (items, [])) ∨
    (∃ x y, firstMin D (offDiag items) = some (x, y) ∧ D x y < m ∧
        ∃ u w, ((r y < r x ∧ u = y ∧ w = x) ∨ (¬ r y < r x ∧ u = x ∧ w = y)) ∧
        loop D r m (fuel + 1) items =
          ((loop D r m fuel (items.erase u)).1,
            ⟨u, w, items⟩ :: (loop D r m fuel (items.erase u)).2)) := by
  cases h : firstMin D (offDiag items) with
  | none => left; simp [loop, h]
  | some p =>
    obtain ⟨x, y⟩ := p
    right
    by_cases hd : D x y < m
    · right
      refine ⟨x, y, rfl, hd, ?_⟩
      by_cases hr : r y < r x
      · exact ⟨y, x, Or.inl ⟨hr, rfl, rfl⟩, by simp [loop, h, hd, hr]⟩
      · exact ⟨x, y, Or.inr ⟨hr, rfl, rfl⟩, by simp [loop, h, hd, hr]⟩
    · left
      exact ⟨x, y, rfl, hd, by simp [loop, h, hd]⟩

theorem firstMin_mem (D : Nat → Nat → α) (items : List Nat) (x y : Nat)
    (h : firstMin D (offDiag items) = some (x, y)) :
    x ∈ items ∧ y ∈ items ∧ y ≠ x ∧
      ∀ a b, a ∈ items → b ∈ items → b ≠ a → D x y ≤ D a b := by
  rcases firstMin_spec D (offDiag items) with ⟨_, hn⟩ | ⟨p, hp, hs, hall⟩
  · rw [hn] at h; cases h
  · rw [hs] at h; cases h
    obtain ⟨hx, hy, hne⟩ := (mem_offDiag items x y).mp hp
    exact ⟨hx, hy, hne, fun a b ha hb hab => hall (a, b) ((mem_offDiag items a b).mpr ⟨ha, hb, hab⟩)⟩

/-! ### the property -/

/-- **Survivors are the original objects in their original order.** -/
theorem removed_sublist (D : Nat → Nat → α) (r : Nat → α) (m : α) (fuel : Nat) (items : List Nat) :
    (loop D r m fuel items).1.Sublist items := by
  induction fuel generalizing items with
  | zero => simp [loop]
  | succ fuel ih =>
    rcases loop_succ D r m fuel items with ⟨_, h⟩ | ⟨x, y, _, _, h⟩ | ⟨x, y, _, _, u, w, _, h⟩
    · rw [h]
    · rw [h]
    · rw [h]; exact (ih _).trans (List.erase_sublist)

/-- **No remaining pair is closer than the minimal distance** (fuel = number of items is enough:
the loop removes one item per iteration). -/
theorem removed_separated (D : Nat → Nat → α) (r : Nat → α) (m : α) (fuel : Nat) (items : List Nat)
    (hf : items.length ≤ fuel) :
    ∀ a b, a ∈ (loop D r m fuel items).1 → b ∈ (loop D r m fuel items).1 → b ≠ a → m ≤ D a b := by
  induction fuel generalizing items with
  | zero =>
    have : items = [] := List.length_eq_zero_iff.mp (Nat.le_zero.mp hf)
    subst this; simp [loop]
  | succ fuel ih =>
    rcases loop_succ D r m fuel items with ⟨hn, h⟩ | ⟨x, y, hs, hd, h⟩ | ⟨x, y, hs, _, u, w, huw, h⟩
    · rw [h]; intro a b ha hb hab
      rcases firstMin_spec D (offDiag items) with ⟨he, _⟩ | ⟨p, _, hs, _⟩
      · have : (a, b) ∈ offDiag items := (mem_offDiag items a b).mpr ⟨ha, hb, hab⟩
        rw [he] at this; cases this
      · rw [hn] at hs; cases hs
    · rw [h]; intro a b ha hb hab
      obtain ⟨_, _, _, hall⟩ := firstMin_mem D items x y hs
      exact le_trans (not_lt.mp hd) (hall a b ha hb hab)
    · rw [h]
      obtain ⟨hx, hy, _, _⟩ := firstMin_mem D items x y hs
      have hu : u ∈ items := by rcases huw with ⟨_, rfl, _⟩ | ⟨_, rfl, _⟩ <;> assumption
      apply ih
      rw [List.length_erase_of_mem hu]; omega

/-- **Every removed droplet was too close to one at least as large that was present at that
moment**; the list recorded with each removal is a sub-list of the input. -/
theorem removed_dominated (D : Nat → Nat → α) (r : Nat → α) (m : α) (fuel : Nat) (items : List Nat) :
    ∀ e ∈ (loop D r m fuel items).2,
      e.present.Sublist items ∧ e.removed ∈ e.present ∧ e.witness ∈ e.present ∧
      e.removed ≠ e.witness ∧ r e.removed ≤ r e.witness ∧
      (D e.removed e.witness < m ∨ D e.witness e.removed < m) := by
  induction fuel generalizing items with
  | zero => simp [loop]
  | succ fuel ih =>
    rcases loop_succ D r m fuel items with ⟨_, h⟩ | ⟨x, y, _, _, h⟩ | ⟨x, y, hs, hd, u, w, huw, h⟩
    · simp [h]
    · simp [h]
    · rw [h]
      obtain ⟨hx, hy, hne, _⟩ := firstMin_mem D items x y hs
      intro e he
      rcases List.mem_cons.mp he with rfl | he'
      · rcases huw with ⟨hr, rfl, rfl⟩ | ⟨hr, rfl, rfl⟩
        · exact ⟨List.Sublist.refl _, hy, hx, hne, hr.le, Or.inr hd⟩
        · exact ⟨List.Sublist.refl _, hx, hy, hne.symm, not_lt.mp hr, Or.inl hd⟩
      · obtain ⟨h1, h2⟩ := ih _ e he'
        exact ⟨h1.trans List.erase_sublist, h2⟩

/-- **A strictly largest droplet always survives.** -/
theorem largest_survives (D : Nat → Nat → α) (r : Nat → α) (m : α) (fuel : Nat) (items : List Nat)
    (a : Nat) (ha : a ∈ items) (hmax : ∀ b ∈ items, b ≠ a → r b < r a) :
    a ∈ (loop D r m fuel items).1 := by
  induction fuel generalizing items with
  | zero => simpa [loop] using ha
  | succ fuel ih =>
    rcases loop_succ D r m fuel items with ⟨_, h⟩ | ⟨x, y, _, _, h⟩ | ⟨x, y, hs, _, u, w, huw, h⟩
    · rw [h]; exact ha
    · rw [h]; exact ha
    · rw [h]
      obtain ⟨hx, hy, hne, _⟩ := firstMin_mem D items x y hs
      have hua : u ≠ a := by
        rcases huw with ⟨hr, hu, _⟩ | ⟨hr, hu, _⟩
        · intro hya; rw [hu] at hya; subst hya
          exact lt_asymm hr (hmax x hx (Ne.symm hne))
        · intro hxa; rw [hu] at hxa; subst hxa
          exact hr (hmax y hy hne)
      apply ih
      · exact (List.mem_erase_of_ne (Ne.symm hua)).mpr ha
      · intro b hb hba
        exact hmax b (List.mem_of_mem_erase hb) hba

/-- **A second call removes nothing.** -/
theorem removed_idempotent (D : Nat → Nat → α) (r : Nat → α) (m : α) (fuel fuel' : Nat)
    (items : List Nat) (hf : items.length ≤ fuel) :
    loop D r m fuel' (loop D r m fuel items).1 = ((loop D r m fuel items).1, []) := by
  have hsep := removed_separated D r m fuel items hf
  generalize (loop D r m fuel items).1 = res at hsep
  cases fuel' with
  | zero => simp [loop]
  | succ f =>
    rcases loop_succ D r m f res with ⟨_, h⟩ | ⟨x, y, _, _, h⟩ | ⟨x, y, hs, hd, _⟩
    · exact h
    · exact h
    · obtain ⟨hx, hy, hne, _⟩ := firstMin_mem D res x y hs
      exact absurd hd (not_lt.mpr (hsep x y hx hy hne))

/-- **Nothing to remove**: if no pair is closer than the minimal distance the emulsion is returned unchanged -/
theorem loop_noop (D : Nat → Nat → α) (r : Nat → α) (m : α) (fuel : Nat) (items : List Nat)
    (hsep : ∀ a b, a ∈ items → b ∈ items → b ≠ a → m ≤ D a b) :
    loop D r m fuel items = (items, []) := by
  cases fuel with
  | zero => simp [loop]
  | succ f =>
    rcases loop_succ D r m f items with ⟨_, h⟩ | ⟨x, y, _, _, h⟩ | ⟨x, y, hs, hd, _⟩
    · exact h
    · exact h
    · obtain ⟨hx, hy, hne, _⟩ := firstMin_mem D items x y hs
      exact absurd hd (not_lt.mpr (hsep x y hx hy hne))
/-- nothing is lost: input = survivors + removed (as multisets) -/
theorem removed_partition (D : Nat → Nat → α) (r : Nat → α) (m : α) (fuel : Nat) (items : List Nat) :
    items.Perm ((loop D r m fuel items).2.map (·.removed) ++ (loop D r m fuel items).1) := by
  induction fuel generalizing items with
  | zero => simp [loop]
  | succ fuel ih =>
    rcases loop_succ D r m fuel items with ⟨_, h⟩ | ⟨x, y, _, _, h⟩ | ⟨x, y, hs, _, u, w, huw, h⟩
    · rw [h]; simp
    · rw [h]; simp
    · rw [h]
      obtain ⟨hx, hy, _, _⟩ := firstMin_mem D items x y hs
      have hu : u ∈ items := by rcases huw with ⟨_, rfl, _⟩ | ⟨_, rfl, _⟩ <;> assumption
      simp only [List.map_cons, List.cons_append]
      exact (List.perm_cons_erase hu).trans ((ih _).cons u)

/-! ### the pairwise distance matrix -/

section field
variable {K : Type} [Field K]

/-- symmetric with zero diagonal for ANY centre-distance function `d`, even an asymmetric one:
only the upper triangle is evaluated and then mirrored -/
theorem pairwise_symm_zero_diag (d : Nat → Nat → K) (r : Nat → K) (sub : Bool) (i j : Nat) :
    pairwise d r sub i j = pairwise d r sub j i ∧ pairwise d r sub i i = 0 := by
  constructor
  · by_cases h : i = j
    · subst h; rfl
    · have h' : ¬ j = i := fun e => h e.symm
      simp [pairwise, h, h', min_comm, max_comm]
  · simp [pairwise]

/-- entries are the centre distance, optionally minus both radii -/
theorem pairwise_entry (d : Nat → Nat → K) (r : Nat → K) (i j : Nat) (h : i < j) :
    pairwise d r false i j = d i j ∧ pairwise d r true i j = d i j - (r i + r j) := by
  have hne : ¬ i = j := Nat.ne_of_lt h
  simp [pairwise, hne, Nat.min_eq_left h.le, Nat.max_eq_right h.le]

/-- two droplets overlap (`distance < r₁ + r₂`, `SphericalDroplet.overlaps`) exactly when the
surface distance is negative -/
theorem overlaps_iff_negative [LinearOrder K] [IsStrictOrderedRing K] (dist r1 r2 : K) : dist < r1 + r2 ↔ dist - (r1 + r2) < 0 := by
  constructor <;> intro h <;> linarith

end field

/-! ### non-vacuity and instantiation at ℚ (the type the driver computes with) -/

/-- the order the theorems talk about is the order the executable model uses at `ℚ` -/
example : (Rat.instLT : LT ℚ) = (inferInstance : Preorder ℚ).toLT := rfl

/-- a concrete chain 0 – 1 – 2 of overlapping droplets with tied radii: something is removed,
the survivors are separated, and the largest (2) survives -/
example :
    let D : Nat → Nat → ℚ := fun a b => if a + 1 = b ∨ b + 1 = a then -1 else 5
    let r : Nat → ℚ := fun a => if a = 2 then 2 else 1
    removeOverlapping D r 0 3 = [2] := by decide +kernel

end DV.C10
