/-
  C09 — Analysis never aborts on valid input and returns finite droplets.
  The totality face of the models: every modelled path either returns or raises a DOCUMENTED
  error.  This file proves the dispatch part (Model/Dispatch.lean) and collects the totality
  theorems proved with the other properties (they are re-exported here so that a change breaking
  one of them also breaks C09's obligations):
    * rendering is finite (C03 `profile_bounds`, `emulsionField_range`),
    * tracking returns for every time course, empty frames included (C06 `track_total`),
    * the requested class exists for every request, modes in 1-D raise ValueError (C19 `resultClass_spec`),
    * the starting point of the fit is feasible, so the solver is not rejected (C04 `refinePlan_x0_feasible`),
    * the length-scale tracker never raises (C14 `lengthscale_records_all`).
-/
import DropletsVerif.Model.Dispatch
import DropletsVerif.Props.C03
import DropletsVerif.Props.C04
import DropletsVerif.Props.C06
import DropletsVerif.Props.C14
import DropletsVerif.Props.C19

namespace DV.C09
open DV.Dispatch

/-- **Only documented invalid requests raise, and they raise the documented error** -/
theorem locate_documented_errors (g : GridKind) (dim modes : Nat) :
    locateOutcome false g dim modes = .error "TypeError" ∧
    (modes > 0 → dim ≠ 2 → dim ≠ 3 → locateOutcome true g dim modes = .error "ValueError") ∧
    ((modes = 0 ∨ dim = 2 ∨ dim = 3) → locateOutcome true .otherGrid dim modes = .error "NotImplementedError") := by
  refine ⟨by simp [locateOutcome], ?_, ?_⟩
  · intro hm h2 h3; simp [locateOutcome, hm, h2, h3]
  · intro h
    have : ¬ (modes > 0 ∧ dim ≠ 2 ∧ dim ≠ 3) := by omega
    simp [locateOutcome, this, maskOutcome]

/-- **Every valid request on a supported grid family goes through** -/
theorem locate_total (g : GridKind) (dim modes : Nat)
    (hg : g = .cartesian ∨ g = .sphericalSym ∨ g = .cylindricalSym) (hm : modes = 0 ∨ dim = 2 ∨ dim = 3) :
    locateOutcome true g dim modes = .ok () := by
  have : ¬ (modes > 0 ∧ dim ≠ 2 ∧ dim ≠ 3) := by omega
  rcases hg with rfl | rfl | rfl <;> simp [locateOutcome, this, maskOutcome]

/-- **Cylindrical images never abort**: whatever the clusters look like (none on the axis, some
spanning the padded range), the periodic and the non-periodic branch return a list of candidates;
with no cluster on the axis the list is empty. -/
theorem cylSingle_nospan (cs : List Cluster) (h : ∀ c ∈ cs, c.spans = false) :
    ∃ idx, cylSingle cs = .ok idx := by
  have hc : cs.zipIdx.any (fun p => p.1.onAxis && p.1.spans) = false := by
    rw [List.any_eq_false]
    intro p hp
    simp [h p.1 (List.fst_mem_of_mem_zipIdx hp)]
  refine ⟨(cs.zipIdx.filter fun p => p.1.onAxis).map fun p => p.2 + 1, ?_⟩
  simp [cylSingle, hc]

theorem cyl_total (periodic : Bool) (padded unpadded : List Cluster) (insideBox : Nat → Bool) :
    ∃ idx, cylLocate periodic padded unpadded insideBox = .ok idx := by
  have hsingle : ∃ idx, cylSingle (unpadded.map fun c => { c with spans := false }) = .ok idx := by
    apply cylSingle_nospan
    intro c hc
    obtain ⟨c', _, rfl⟩ := List.mem_map.mp hc
    rfl
  unfold cylLocate
  cases periodic
  · simpa using hsingle
  · simp only [if_true]
    cases h : cylSingle padded with
    | ok idx => exact ⟨_, rfl⟩
    | error e => simpa using hsingle

theorem cyl_none_on_axis (clusters : List Cluster) (h : ∀ c ∈ clusters, c.onAxis = false) :
    cylSingle clusters = .ok [] := by
  have h1 : clusters.zipIdx.any (fun p => p.1.onAxis && p.1.spans) = false := by
    rw [List.any_eq_false]
    intro p hp
    simp [h p.1 (List.fst_mem_of_mem_zipIdx hp)]
  have h2 : clusters.zipIdx.filter (fun p => p.1.onAxis) = [] := by
    rw [List.filter_eq_nil_iff]
    intro p hp
    simp [h p.1 (List.fst_mem_of_mem_zipIdx hp)]
  simp [cylSingle, h1, h2]

/-! ### totality theorems of the other models, re-exported -/

theorem render_finite (R w d : ℝ) : 0 < DV.Gen.diffuse_smooth R w d ∧ DV.Gen.diffuse_smooth R w d < 1 :=
  DV.C03.profile_bounds R w d

theorem emulsion_render_in_range (fs : List (List ℚ)) (n : ℕ) :
    ∀ v ∈ DV.Render.emulsionField fs n, 0 ≤ v ∧ v ≤ 1 := DV.C03.emulsionField_range fs n

theorem tracking_total {τ : Type} [DecidableEq τ] {α : Type} [LinearOrder α] (m : DV.Track.Method α)
    (frames : List (τ × List Nat))
    (hm : (∃ ov, m = .overlap ov) ∨ ∃ dist maxd, m = .distance dist maxd false) :
    ∃ trs : List (DV.Track.Track τ), DV.Track.trackAll m frames = .ok trs := DV.C06.track_total m frames hm

theorem modes_in_1d_documented_error (modes : Nat) (hm : 0 < modes) (width refine : Bool) :
    DV.ClassSel.resultClass .cartesian 1 modes width refine = .error "ValueError" := by
  have := DV.C19.resultClass_spec .cartesian 1 modes width refine (fun _ => Or.inl rfl)
  simpa [DV.ClassSel.dimOf, hm] using this

theorem lengthscale_tracker_total {F T V : Type} (ls : F → Except String V) (frames : List (F × T)) :
    DV.Tracker.runLs ls frames = frames.map (fun fr => (fr.2, DV.Tracker.valueOrNaN (ls fr.1))) :=
  DV.C14.lengthscale_records_all ls frames

end DV.C09
