/-
  C01 — Locating a rendered emulsion returns each droplet once, with exact volume.
  The counting/merging/volume part is C02's (`mergeLoop_partition`, `mergeLoop_volume`,
  `C02_position_nonwinding`: one droplet per periodic component, volume = number of covered cells ×
  cell volume, position = centre of mass of the unwrapped component) applied to the rendering of C03
  (`inside`: the cells whose centres the droplet covers).  What is specific to C01 is proved here for
  ALL lattice placements, spacings, offsets and radii:

  * the centre of mass of the cell centres covered by a ball lies within HALF A CELL of the ball's
    centre, per axis, in any dimension and for anisotropic spacing (`lattice_run_mean`,
    `lattice_fibres_com`): the covered cells split into fibres along the axis, every fibre is the
    lattice run of a condition `(x − c)² < q` symmetric about `c`;
  * radial grids: the located radius is within half a radial spacing, and the sphere of that radius
    has exactly the volume of the covered shells (`C01_radial`, `shells_telescope`).
-/
import DropletsVerif.Lemmas.RealInst
import DropletsVerif.Props.C02
import DropletsVerif.Lemmas.BallConn
import DropletsVerif.Generated.Spherical
import Mathlib.Tactic
import Mathlib.Algebra.BigOperators.Intervals

namespace DV.C01
open Finset BigOperators

section lattice
variable {K : Type} [Field K] [LinearOrder K] [IsStrictOrderedRing K]

/-- centre of cell `i` on an axis with origin `o` and spacing `h` -/
def cellCentre (o h : K) (i : ℤ) : K := o + ((i : K) + 1 / 2) * h

/-- the cells `a, a+1, …, a+n−1` (n ≥ 1) are exactly the lattice run of the condition
`(x − c)² < q`: both ends satisfy it, their outer neighbours do not -/
structure IsRun (o h c q : K) (a : ℤ) (n : ℕ) : Prop where
  pos : 0 < n
  first_in : (cellCentre o h a - c) ^ 2 < q
  last_in : (cellCentre o h (a + n - 1) - c) ^ 2 < q
  before_out : q ≤ (cellCentre o h (a - 1) - c) ^ 2
  after_out : q ≤ (cellCentre o h (a + n) - c) ^ 2

/-- sum of the offsets `x_i − c` over the run -/
def runSum (o h c : K) (a : ℤ) (n : ℕ) : K := ∑ j ∈ range n, (cellCentre o h (a + j) - c)

theorem runSum_eq (o h c : K) (a : ℤ) (n : ℕ) :
    runSum o h c a n = n * ((cellCentre o h a + cellCentre o h (a + n - 1)) / 2 - c) := by
  unfold runSum cellCentre
  induction n with
  | zero => simp
  | succ n ih =>
    rw [Finset.sum_range_succ, ih]
    push_cast
    ring

/-- **Half-cell lemma (one fibre).**  For any origin, spacing `h > 0`, centre `c` and threshold `q`:
the mean of the covered cell centres of a run differs from `c` by LESS than `h/2`. -/
theorem lattice_run_mean (o h c q : K) (hh : 0 < h) (a : ℤ) (n : ℕ) (hr : IsRun o h c q a n) :
    |runSum o h c a n| < n * (h / 2) := by
  rw [runSum_eq]
  have hn : (0 : K) < n := by exact_mod_cast hr.pos
  rw [abs_mul, abs_of_pos hn]
  apply mul_lt_mul_of_pos_left _ hn
  -- the two end points
  set xa := cellCentre o h a with hxa
  set xb := cellCentre o h (a + n - 1) with hxb
  have hxa1 : cellCentre o h (a - 1) = xa - h := by simp [cellCentre, hxa]; ring
  have hxb1 : cellCentre o h (a + n) = xb + h := by simp [cellCentre, hxb]; ring
  have h1 := hr.first_in
  have h2 := hr.last_in
  have h3 := hr.before_out
  have h4 := hr.after_out
  rw [hxa1] at h3
  rw [hxb1] at h4
  have hab : xa ≤ xb := by
    simp only [hxa, hxb, cellCentre]
    have : (0 : K) ≤ (n : K) - 1 := by
      have : (1 : K) ≤ n := by exact_mod_cast hr.pos
      linarith
    push_cast
    nlinarith
  rw [abs_lt]
  constructor
  · -- (xa + xb)/2 − c > −h/2, else the cell after the run would be inside
    by_contra hcon
    push_neg at hcon
    have hle : xb + h - c ≤ c - xa := by linarith
    by_cases hs : 0 ≤ xb + h - c
    · have : (xb + h - c) ^ 2 ≤ (c - xa) ^ 2 := by nlinarith
      have : (c - xa) ^ 2 = (xa - c) ^ 2 := by ring
      nlinarith
    · push_neg at hs
      have : (xb + h - c) ^ 2 < (xb - c) ^ 2 := by nlinarith
      nlinarith
  · by_contra hcon
    push_neg at hcon
    have hle : c - (xa - h) ≤ xb - c := by linarith
    by_cases hs : 0 ≤ c - (xa - h)
    · have : (xa - h - c) ^ 2 ≤ (xb - c) ^ 2 := by nlinarith
      nlinarith
    · push_neg at hs
      have : (xa - h - c) ^ 2 < (xa - c) ^ 2 := by nlinarith
      nlinarith

/-- **Half-cell bound for a ball in any dimension (one axis at a time, anisotropic spacing
allowed).**  The covered cells of a ball split into fibres along the axis under consideration; the
fibre over the other coordinates `t` is the lattice run of `(x − c)² < q_t` with
`q_t = R² − Σ_{other axes}(…)²`, whatever `q_t` is.  Then the sum of the offsets over ALL covered
cells is smaller than (number of covered cells) · h/2, i.e. the centre of mass lies within half a cell
of `c` along this axis. -/
theorem lattice_fibres_com {ι : Type} (s : Finset ι) (hs : s.Nonempty) (o h c : K) (hh : 0 < h)
    (q : ι → K) (a : ι → ℤ) (n : ι → ℕ) (hr : ∀ t ∈ s, IsRun o h c (q t) (a t) (n t)) :
    |∑ t ∈ s, runSum o h c (a t) (n t)| < (∑ t ∈ s, (n t : K)) * (h / 2) := by
  calc |∑ t ∈ s, runSum o h c (a t) (n t)| ≤ ∑ t ∈ s, |runSum o h c (a t) (n t)| := Finset.abs_sum_le_sum_abs _ _
    _ < ∑ t ∈ s, (n t : K) * (h / 2) :=
        Finset.sum_lt_sum_of_nonempty hs (fun t ht => lattice_run_mean o h c (q t) hh (a t) (n t) (hr t ht))
    _ = (∑ t ∈ s, (n t : K)) * (h / 2) := by rw [Finset.sum_mul]

/-- in the form the code uses it: centre of mass `= c + (Σ offsets)/N` with `|·| < h/2` -/
theorem lattice_com_within_half_cell {ι : Type} (s : Finset ι) (hs : s.Nonempty) (o h c : K) (hh : 0 < h)
    (q : ι → K) (a : ι → ℤ) (n : ι → ℕ) (hr : ∀ t ∈ s, IsRun o h c (q t) (a t) (n t)) :
    |(∑ t ∈ s, runSum o h c (a t) (n t)) / (∑ t ∈ s, (n t : K))| < h / 2 := by
  have hN : 0 < ∑ t ∈ s, (n t : K) :=
    Finset.sum_pos (fun t ht => by exact_mod_cast (hr t ht).pos) hs
  rw [abs_div, abs_of_pos hN, div_lt_iff₀ hN]
  have := lattice_fibres_com s hs o h c hh q a n hr
  linarith

/-- **Radial grids: the located radius is within half a radial spacing.**  The droplet of radius
`R` centred at the origin covers exactly the cells `0 … m−1` (cell `m−1` inside, cell `m` outside);
the code returns the outer edge `m·dr` of the last covered cell. -/
theorem C01_radial (dr R : K) (hdr : 0 < dr) (m : ℕ)
    (hin : m = 0 ∨ ((m : K) - 1 + 1 / 2) * dr < R) (hout : R ≤ ((m : K) + 1 / 2) * dr) (hR : 0 < R) :
    |(m : K) * dr - R| ≤ dr / 2 := by
  rw [abs_le]
  constructor
  · linarith
  · rcases hin with h0 | h1
    · subst h0; simp; linarith
    · linarith

end lattice

/-! ### volume on radial grids: the sphere of the located radius = the covered shells -/

/-- **Telescoping**: for any volume function with `V 0 = 0`, the shells `[i·dr, (i+1)·dr)`,
`i < m`, add up to the sphere of radius `m·dr` — the returned droplet's volume equals the total
volume of the covered cells. -/
theorem shells_telescope (V : ℝ → ℝ) (hV : V 0 = 0) (dr : ℝ) (m : ℕ) :
    ∑ i ∈ range m, (V (((i : ℝ) + 1) * dr) - V ((i : ℝ) * dr)) = V ((m : ℝ) * dr) := by
  have := Finset.sum_range_sub (fun i : ℕ => V ((i : ℝ) * dr)) m
  simp only [Nat.cast_add, Nat.cast_one, Nat.cast_zero, zero_mul, hV, sub_zero] at this
  exact this

/-- the regenerated `volume_from_radius` vanishes at radius 0 in every supported dimension, so the
telescoping applies to the library's own volume formula -/
theorem volume_at_zero (d : ℕ) (hd : d = 1 ∨ d = 2 ∨ d = 3) :
    DV.Gen.volume_from_radius_pde (0 : ℝ) d = .ok 0 := by
  rcases hd with rfl | rfl | rfl <;> simp [DV.Gen.volume_from_radius_pde]

/-- non-vacuity: spacing 1, origin 0, centre 2.3, q = 1.7² — the run is cells 1,2,3 (centres 1.5,
2.5, 3.5), cells 0 and 4 are outside; the mean 2.5 is within 0.5 of 2.3 -/
example : IsRun (0 : ℚ) 1 (23 / 10) ((17 / 10) ^ 2) 1 3 := by
  constructor <;> norm_num [cellCentre]

end DV.C01

/-! ### one droplet in the model pipeline: rendering (C03) -> labelling -> periodic merging (C02)

The geometric input is Lemmas/BallConn.lean: from every covered cell one can walk by face steps of the
grid's topology, never increasing the distance to the centre, to THE cell nearest to the centre; hence the
covered cells form one component, for every grid, centre and radius. -/

namespace DV.C01
open DV.Merge DV.MergeInv DV.Label DV.LabelInv DV.GridGeom DV.Render DV.BallConn DV.C02 Relation

variable (axes : List Axis) (ctr : List ℚ)

/-- the sharp image of ONE droplet (centre `ctr`, radius `R`) over the flat cells of the grid:
exactly the rendering of C03 (`DV.Render.inside`) -/
def ballMask (R : ℚ) (c : ℕ) : Bool :=
  decide (c < numCells (shapeOf axes)) && inside axes ctr R (unflat (shapeOf axes) c)

theorem ballMask_iff (R : ℚ) (c : ℕ) :
    ballMask axes ctr R c = true ↔ c < numCells (shapeOf axes) ∧ D axes ctr c < R * R := by
  unfold ballMask inside D
  rw [dist2_eq_dist2r]
  simp

theorem adj_faceAdj {a b : ℕ} (h : Adj axes a b) :
    FaceAdj (shapeOf axes) (perOf axes) a b ∨ FaceAdj (shapeOf axes) (perOf axes) b a := by
  obtain ⟨ax, h1 | h2 | h3 | h4⟩ := h
  · exact Or.inl ⟨ax, Or.inl h1⟩
  · exact Or.inl ⟨ax, Or.inr h2⟩
  · exact Or.inr ⟨ax, Or.inl h3⟩
  · exact Or.inr ⟨ax, Or.inr h4⟩

theorem path_conn (R : ℚ) {a b : ℕ} (hp : Path axes ctr a b) (ha : ballMask axes ctr R a = true) :
    ballMask axes ctr R b = true ∧ GridConn (shapeOf axes) (perOf axes) (ballMask axes ctr R) a b := by
  induction hp with
  | refl => exact ⟨ha, EqvGen.refl _⟩
  | tail _ hstep ih =>
    obtain ⟨hb, hconn⟩ := ih
    rename_i b c _
    obtain ⟨_, hc, hadj, hle⟩ := hstep
    have hmc : ballMask axes ctr R c = true := by
      rw [ballMask_iff] at hb ⊢
      exact ⟨hc, lt_of_le_of_lt hle hb.2⟩
    refine ⟨hmc, EqvGen.trans _ _ _ hconn ?_⟩
    rcases adj_faceAdj axes hadj with hf | hf
    · exact EqvGen.rel _ _ ⟨hb, hmc, Or.inr hf⟩
    · exact EqvGen.symm _ _ (EqvGen.rel _ _ ⟨hmc, hb, Or.inr hf⟩)

/-- **The cells covered by a droplet form ONE component of the grid's topology** — for every grid
(any dimension, anisotropic spacing, any mix of periodic axes), every centre (inside or outside the box)
and every radius. -/
theorem ball_connected (h : GridWF axes ctr) (R : ℚ) {c1 c2 : ℕ}
    (m1 : ballMask axes ctr R c1 = true) (m2 : ballMask axes ctr R c2 = true) :
    GridConn (shapeOf axes) (perOf axes) (ballMask axes ctr R) c1 c2 := by
  obtain ⟨t, _, p1, p2⟩ := common_descent axes ctr h ((ballMask_iff axes ctr R c1).mp m1).1 ((ballMask_iff axes ctr R c2).mp m2).1
  exact EqvGen.trans _ _ _ (path_conn axes ctr R p1 m1).2 (EqvGen.symm _ _ (path_conn axes ctr R p2 m2).2)

/-- **Exactly one cluster per droplet.**  Rendering one droplet, labelling the image and merging across
the periodic boundaries (`locateMask`: the pipeline the driver runs against `locate_droplets`) puts
all covered cells into the same cluster. -/
theorem single_droplet_one_cluster (h : GridWF axes ctr) (R : ℚ) (coord : ℕ → ℕ → ℕ) (cells : List ℕ) (shp : ℕ → ℕ) :
    let mask := ballMask axes ctr R
    let L := labelFn (shapeOf axes) mask
    let st := mergeLoop shp L (initSt coord L cells) (edgesOf (shapeOf axes) (perOf axes))
    ∀ c1 c2, mask c1 = true → mask c2 = true → st.lab c1 = st.lab c2 := by
  intro mask L st c1 c2 m1 m2
  have hmask : ∀ c, mask c = true → c < numCells (shapeOf axes) := fun c hc => ((ballMask_iff axes ctr R c).mp hc).1
  exact (locateMask_topology (shapeOf axes) (perOf axes) mask (shape_pos axes ctr h) hmask coord cells shp c1 c2 m1 m2).mpr
    (ball_connected axes ctr h R m1 m2)


/-! ### the executed pipeline returns exactly one cluster with the number of covered cells -/

theorem lab_mem_init (shape : ℕ → ℕ) (lab0 : ℕ → ℕ) (coord : ℕ → ℕ → ℕ) (cells : List ℕ) (edges : List Edge) :
    ∀ c, ∃ c', (mergeLoop shape lab0 (initSt coord lab0 cells) edges).lab c = lab0 c' := by
  have := foldl_inv shape lab0 (fun st _ => ∀ c, ∃ c', st.lab c = lab0 c')
    (fun st es e hinv => by
      by_cases hm : Merging st e
      · intro c
        rw [step_lab shape lab0 st e hm c]
        split
        · exact hinv e.l
        · exact hinv c
      · rw [step_noop shape lab0 st e hm]; exact hinv)
    edges (initSt coord lab0 cells) [] (fun c => ⟨c, rfl⟩)
  simpa [mergeLoop] using this

theorem foldl_max_ge (l : List ℕ) (a : ℕ) : a ≤ l.foldl max a ∧ ∀ x ∈ l, x ≤ l.foldl max a := by
  induction l generalizing a with
  | nil => simp
  | cons y l ih =>
    obtain ⟨h1, h2⟩ := ih (max a y)
    simp only [List.foldl_cons]
    refine ⟨le_trans (le_max_left a y) h1, ?_⟩
    intro x hx
    rcases List.mem_cons.mp hx with rfl | hx
    · exact le_trans (le_max_right a x) h1
    · exact h2 x hx

theorem getD_le_foldl_max (l : List ℕ) (c : ℕ) : l.getD c 0 ≤ l.foldl max 0 := by
  by_cases hc : c < l.length
  · rw [List.getD_eq_getElem?_getD, List.getElem?_eq_getElem hc]
    exact (foldl_max_ge l 0).2 _ (List.getElem_mem hc)
  · rw [List.getD_eq_getElem?_getD, List.getElem?_eq_none (by omega)]; simp

theorem filter_eq_singleton {p : ℕ → Bool} {a : ℕ} : ∀ (l : List ℕ), l.Nodup → a ∈ l → (∀ x ∈ l, p x = true ↔ x = a) →
    l.filter p = [a]
  | [], _, h, _ => by simp at h
  | y :: l, hnd, hmem, hp => by
    obtain ⟨hy, hnd'⟩ := List.nodup_cons.mp hnd
    by_cases hya : y = a
    · subst hya
      have : p y = true := (hp y List.mem_cons_self).mpr rfl
      rw [List.filter_cons_of_pos this]
      congr 1
      apply List.filter_eq_nil_iff.mpr
      intro x hx hpx
      have := (hp x (List.mem_cons_of_mem _ hx)).mp hpx
      subst this
      exact hy hx
    · have hpy : ¬ p y = true := fun hpy => hya ((hp y List.mem_cons_self).mp hpy)
      rw [List.filter_cons_of_neg hpy]
      have hmem' : a ∈ l := by
        rcases List.mem_cons.mp hmem with h | h
        · exact absurd h.symm hya
        · exact h
      exact filter_eq_singleton l hnd' hmem' (fun x hx => hp x (List.mem_cons_of_mem _ hx))

theorem count_eq_length (lab : ℕ → ℕ) (r : ℕ) (cells : List ℕ) :
    count lab r cells = ((cells.filter fun c => lab c == r).length : ℚ) := by
  unfold count wsum
  induction cells with
  | nil => simp
  | cons c cells ih =>
    simp only [List.map_cons, List.sum_cons, List.filter_cons]
    by_cases hc : lab c = r
    · simp [hc, ih]; ring
    · simp [hc, ih]

theorem edgesOf_cells (shape : List ℕ) (periodic : List Bool) (hpos : ∀ n ∈ shape, 0 < n) :
    ∀ e ∈ edgesOf shape periodic, e.l ∈ List.range (numCells shape) ∧ e.h ∈ List.range (numCells shape) := by
  intro e he
  obtain ⟨h1, _, h3, _, h5⟩ := (mem_edgesOf shape periodic e).mp he
  have hn : shape.getD e.ax 1 - 1 < shape.getD e.ax 1 := by
    have : 0 < shape.getD e.ax 1 := by
      rw [List.getD_eq_getElem?_getD, List.getElem?_eq_getElem h1]
      exact hpos _ (List.getElem_mem h1)
    omega
  have := (setCoord_spec shape hpos e.l e.ax _ hn).1
  exact ⟨List.mem_range.mpr h3, List.mem_range.mpr (h5 ▸ this)⟩

/-- **One droplet in, one cluster out, with the exact number of covered cells.**  For every well-formed
grid, centre and radius such that the droplet covers at least one cell centre, the pipeline that the
driver executes (`locateMask`: labelling + periodic merging) returns a list with exactly ONE entry whose
volume (in cells) is the number of cell centres the droplet covers. -/
theorem locateMask_single (h : GridWF axes ctr) (R : ℚ) (maskL : List Bool)
    (hm : ∀ c, maskL.getD c false = ballMask axes ctr R c) (hne : ∃ c, ballMask axes ctr R c = true) :
    ∃ r pos, locateMask (shapeOf axes) (perOf axes) maskL =
      [(r, (((List.range (numCells (shapeOf axes))).filter (ballMask axes ctr R)).length : ℚ), pos)] := by
  set shape := shapeOf axes with hshape
  set per := perOf axes with hper
  set mask := ballMask axes ctr R with hmaskdef
  have hpos := shape_pos axes ctr h
  have hmfun : (fun c => maskL.toArray.getD c false) = mask := by
    funext c
    rw [← hm c]
    simp only [Array.getD, List.getD_eq_getElem?_getD, List.size_toArray]
    split <;> simp_all
  unfold locateMask
  simp only
  rw [hmfun]
  unfold locateCells
  simp only
  set labels := labelExec shape mask with hlabels
  set n := numCells shape with hn
  set cells := List.range n with hcells
  have hL : (fun c => labels.getD c 0) = labelFn shape mask := rfl
  rw [hL]
  set L := labelFn shape mask with hLdef
  set shp : ℕ → ℕ := fun a => shape.getD a 1 with hshp
  set st := mergeLoop shp L (initSt (coordOf shape) L cells) (edgesOf shape per) with hst
  have hmask : ∀ c, mask c = true → c < n := fun c hc => ((ballMask_iff axes ctr R c).mp hc).1
  obtain ⟨c0, hc0⟩ := hne
  have hone := single_droplet_one_cluster axes ctr h R (coordOf shape) cells shp
  have hposlab := (locateMask_partition shape per mask hmask (coordOf shape) cells shp).1
  set r0 := st.lab c0 with hr0
  have hr0pos : 0 < r0 := (hposlab c0).mpr hc0
  -- the label of every cell: r0 on the mask, 0 elsewhere
  have hlab : ∀ c, st.lab c = if mask c = true then r0 else 0 := by
    intro c
    by_cases hc : mask c = true
    · rw [if_pos hc]; exact hone c c0 hc hc0
    · rw [if_neg hc]
      have : ¬ 0 < st.lab c := (hposlab c).not.mpr hc
      omega
  -- r0 is one of the initial labels
  have hr0le : r0 ≤ labels.foldl max 0 := by
    obtain ⟨c', hc'⟩ := lab_mem_init shp L (coordOf shape) cells (edgesOf shape per) c0
    rw [hr0, hc']
    exact getD_le_foldl_max labels c'
  have hfilter : ((List.range (labels.foldl max 0 + 1)).filter fun r => decide (r > 0) && cells.any fun c => st.lab c == r) = [r0] := by
    apply filter_eq_singleton _ List.nodup_range (List.mem_range.mpr (by omega))
    intro r _
    simp only [Bool.and_eq_true, decide_eq_true_eq, List.any_eq_true, beq_iff_eq]
    constructor
    · rintro ⟨hr, c, _, hc⟩
      rw [hlab c] at hc
      split at hc
      · exact hc.symm
      · omega
    · rintro rfl
      exact ⟨hr0pos, c0, List.mem_range.mpr (hmask c0 hc0), rfl⟩
  rw [hfilter]
  simp only [List.map_cons, List.map_nil]
  refine ⟨r0, (List.range shape.length).map fun a => st.pos r0 a, ?_⟩
  congr 2
  -- volume
  have hpres : Present st cells r0 := ⟨hr0pos, c0, List.mem_range.mpr (hmask c0 hc0), rfl⟩
  have hvol := mergeLoop_volume shp L (coordOf shape) cells (edgesOf shape per) (edgesOf_cells shape per hpos) r0 hpres
  rw [hvol, count_eq_length]
  have hfc : (cells.filter fun c => st.lab c == r0) = cells.filter mask := by
    apply List.filter_congr
    intro c _
    rw [hlab c]
    by_cases hc : mask c = true
    · simp [hc]
    · have : mask c = false := by simpa using hc
      simp [this]; omega
  rw [hfc]

/-- non-vacuity: a 5×8 grid, periodic along the second axis, droplet of radius 1.3 centred at (2.5, 7.9),
i.e. straddling the periodic boundary: the hypotheses hold, and the executed pipeline returns one cluster
of 6 cells at (2.5, 0) ≡ (2.5, 8), within half a cell of the centre -/
def axesEx : List Axis := [⟨0, 1, 5, false⟩, ⟨0, 1, 8, true⟩]

example : GridWF axesEx [5/2, 79/10] := by
  refine ⟨?_, rfl⟩
  intro a ha
  simp only [axesEx, List.mem_cons, List.not_mem_nil, or_false] at ha
  rcases ha with rfl | rfl <;> exact ⟨by norm_num, by norm_num⟩

example : locateMask [5, 8] [false, true] ((List.range 40).map (ballMask axesEx [5/2, 79/10] (13/10)))
    = [(1, 6, [5/2, 0])] := by decide +kernel

end DV.C01
