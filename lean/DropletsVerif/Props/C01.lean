/-
  C01 — Locating a rendered emulsion returns each droplet once, with exact volume.
  The counting/merging/volume part is C02's (`mergeLoop_partition`, `mergeLoop_volume`,
  `C02_position_nonwinding`: one droplet per periodic component, volume = number of covered cells ×
  cell volume, position = centre of mass of the unwrapped component) applied to the rendering of C03
  (`inside`: the cells whose centres the droplet covers).  What is specific to C01 is proved here for
  ALL lattice placements, spacings, offsets and radii:

  * the centre of mass of the cell centres covered by a ball lies within HALF A CELL of the ball's
    centre, per axis, in any dimension and for anisotropic spacing (`lattice_run_mean`,
    `lattice_fibres_com`): the covered cells split into fibres along the axis, every fibre is the
    lattice run of a condition `(x − c)² < q` symmetric about `c`;
  * radial grids: the located radius is within half a radial spacing, and the sphere of that radius
    has exactly the volume of the covered shells (`C01_radial`, `shells_telescope`).
-/
import DropletsVerif.Lemmas.RealInst
import DropletsVerif.Props.C02
import DropletsVerif.Props.C03
import DropletsVerif.Lemmas.BallConn
import DropletsVerif.Generated.Spherical
import Mathlib.Tactic
import Mathlib.Algebra.BigOperators.Intervals
import DropletsVerif.Lemmas.Lattice

namespace DV.C01
open Finset BigOperators

section lattice
variable {K : Type} [Field K] [LinearOrder K] [IsStrictOrderedRing K]

/-- centre of cell `i` on an axis with origin `o` and spacing `h` -/
def cellCentre (o h : K) (i : ℤ) : K := o + ((i : K) + 1 / 2) * h

/-- the cells `a, a+1, …, a+n−1` (n ≥ 1) are exactly the lattice run of the condition
`(x − c)² < q`: both ends satisfy it, their outer neighbours do not -/
structure IsRun (o h c q : K) (a : ℤ) (n : ℕ) : Prop where
  pos : 0 < n
  first_in : (cellCentre o h a - c) ^ 2 < q
  last_in : (cellCentre o h (a + n - 1) - c) ^ 2 < q
  before_out : q ≤ (cellCentre o h (a - 1) - c) ^ 2
  after_out : q ≤ (cellCentre o h (a + n) - c) ^ 2

/-- sum of the offsets `x_i − c` over the run -/
def runSum (o h c : K) (a : ℤ) (n : ℕ) : K := ∑ j ∈ range n, (cellCentre o h (a + j) - c)

theorem runSum_eq (o h c : K) (a : ℤ) (n : ℕ) :
    runSum o h c a n = n * ((cellCentre o h a + cellCentre o h (a + n - 1)) / 2 - c) := by
  unfold runSum cellCentre
  induction n with
  | zero => simp
  | succ n ih =>
    rw [Finset.sum_range_succ, ih]
    push_cast
    ring

/-- **Half-cell lemma (one fibre).**  For any origin, spacing `h > 0`, centre `c` and threshold `q`:
the mean of the covered cell centres of a run differs from `c` by LESS than `h/2`. -/
theorem lattice_run_mean (o h c q : K) (hh : 0 < h) (a : ℤ) (n : ℕ) (hr : IsRun o h c q a n) :
    |runSum o h c a n| < n * (h / 2) := by
  rw [runSum_eq]
  have hn : (0 : K) < n := by exact_mod_cast hr.pos
  rw [abs_mul, abs_of_pos hn]
  apply mul_lt_mul_of_pos_left _ hn
  -- the two end points
  set xa := cellCentre o h a with hxa
  set xb := cellCentre o h (a + n - 1) with hxb
  have hxa1 : cellCentre o h (a - 1) = xa - h := by simp [cellCentre, hxa]; ring
  have hxb1 : cellCentre o h (a + n) = xb + h := by simp [cellCentre, hxb]; ring
  have h1 := hr.first_in
  have h2 := hr.last_in
  have h3 := hr.before_out
  have h4 := hr.after_out
  rw [hxa1] at h3
  rw [hxb1] at h4
  have hab : xa ≤ xb := by
    simp only [hxa, hxb, cellCentre]
    have : (0 : K) ≤ (n : K) - 1 := by
      have : (1 : K) ≤ n := by exact_mod_cast hr.pos
      linarith
    push_cast
    nlinarith
  rw [abs_lt]
  constructor
  · -- (xa + xb)/2 − c > −h/2, else the cell after the run would be inside
    by_contra hcon
    push_neg at hcon
    have hle : xb + h - c ≤ c - xa := by linarith
    by_cases hs : 0 ≤ xb + h - c
    · have : (xb + h - c) ^ 2 ≤ (c - xa) ^ 2 := by nlinarith
      have : (c - xa) ^ 2 = (xa - c) ^ 2 := by ring
      nlinarith
    · push_neg at hs
      have : (xb + h - c) ^ 2 < (xb - c) ^ 2 := by nlinarith
      nlinarith
  · by_contra hcon
    push_neg at hcon
    have hle : c - (xa - h) ≤ xb - c := by linarith
    by_cases hs : 0 ≤ c - (xa - h)
    · have : (xa - h - c) ^ 2 ≤ (xb - c) ^ 2 := by nlinarith
      nlinarith
    · push_neg at hs
      have : (xa - h - c) ^ 2 < (xa - c) ^ 2 := by nlinarith
      nlinarith

/-- **Half-cell bound for a ball in any dimension (one axis at a time, anisotropic spacing
allowed).**  The covered cells of a ball split into fibres along the axis under consideration; the
fibre over the other coordinates `t` is the lattice run of `(x − c)² < q_t` with
`q_t = R² − Σ_{other axes}(…)²`, whatever `q_t` is.  Then the sum of the offsets over ALL covered
cells is smaller than (number of covered cells) · h/2, i.e. the centre of mass lies within half a cell
of `c` along this axis. -/
theorem lattice_fibres_com {ι : Type} (s : Finset ι) (hs : s.Nonempty) (o h c : K) (hh : 0 < h)
    (q : ι → K) (a : ι → ℤ) (n : ι → ℕ) (hr : ∀ t ∈ s, IsRun o h c (q t) (a t) (n t)) :
    |∑ t ∈ s, runSum o h c (a t) (n t)| < (∑ t ∈ s, (n t : K)) * (h / 2) := by
  calc |∑ t ∈ s, runSum o h c (a t) (n t)| ≤ ∑ t ∈ s, |runSum o h c (a t) (n t)| := Finset.abs_sum_le_sum_abs _ _
    _ < ∑ t ∈ s, (n t : K) * (h / 2) :=
        Finset.sum_lt_sum_of_nonempty hs (fun t ht => lattice_run_mean o h c (q t) hh (a t) (n t) (hr t ht))
    _ = (∑ t ∈ s, (n t : K)) * (h / 2) := by rw [Finset.sum_mul]

/-- in the form the code uses it: centre of mass `= c + (Σ offsets)/N` with `|·| < h/2` -/
theorem lattice_com_within_half_cell {ι : Type} (s : Finset ι) (hs : s.Nonempty) (o h c : K) (hh : 0 < h)
    (q : ι → K) (a : ι → ℤ) (n : ι → ℕ) (hr : ∀ t ∈ s, IsRun o h c (q t) (a t) (n t)) :
    |(∑ t ∈ s, runSum o h c (a t) (n t)) / (∑ t ∈ s, (n t : K))| < h / 2 := by
  have hN : 0 < ∑ t ∈ s, (n t : K) :=
    Finset.sum_pos (fun t ht => by exact_mod_cast (hr t ht).pos) hs
  rw [abs_div, abs_of_pos hN, div_lt_iff₀ hN]
  have := lattice_fibres_com s hs o h c hh q a n hr
  linarith

/-- **Radial grids: the located radius is within half a radial spacing.**  The droplet of radius
`R` centred at the origin covers exactly the cells `0 … m−1` (cell `m−1` inside, cell `m` outside);
the code returns the outer edge `m·dr` of the last covered cell. -/
theorem C01_radial (dr R : K) (hdr : 0 < dr) (m : ℕ)
    (hin : m = 0 ∨ ((m : K) - 1 + 1 / 2) * dr < R) (hout : R ≤ ((m : K) + 1 / 2) * dr) (hR : 0 < R) :
    |(m : K) * dr - R| ≤ dr / 2 := by
  rw [abs_le]
  constructor
  · linarith
  · rcases hin with h0 | h1
    · subst h0; simp; linarith
    · linarith

end lattice

/-! ### volume on radial grids: the sphere of the located radius = the covered shells -/

/-- **Telescoping**: for any volume function with `V 0 = 0`, the shells `[i·dr, (i+1)·dr)`,
`i < m`, add up to the sphere of radius `m·dr` — the returned droplet's volume equals the total
volume of the covered cells. -/
theorem shells_telescope (V : ℝ → ℝ) (hV : V 0 = 0) (dr : ℝ) (m : ℕ) :
    ∑ i ∈ range m, (V (((i : ℝ) + 1) * dr) - V ((i : ℝ) * dr)) = V ((m : ℝ) * dr) := by
  have := Finset.sum_range_sub (fun i : ℕ => V ((i : ℝ) * dr)) m
  simp only [Nat.cast_add, Nat.cast_one, Nat.cast_zero, zero_mul, hV, sub_zero] at this
  exact this

/-- the regenerated `volume_from_radius` vanishes at radius 0 in every supported dimension, so the
telescoping applies to the library's own volume formula -/
theorem volume_at_zero (d : ℕ) (hd : d = 1 ∨ d = 2 ∨ d = 3) :
    DV.Gen.volume_from_radius_pde (0 : ℝ) d = .ok 0 := by
  rcases hd with rfl | rfl | rfl <;> simp [DV.Gen.volume_from_radius_pde]

/-- non-vacuity: spacing 1, origin 0, centre 2.3, q = 1.7² — the run is cells 1,2,3 (centres 1.5,
2.5, 3.5), cells 0 and 4 are outside; the mean 2.5 is within 0.5 of 2.3 -/
example : IsRun (0 : ℚ) 1 (23 / 10) ((17 / 10) ^ 2) 1 3 := by
  constructor <;> norm_num [cellCentre]

end DV.C01

/-! ### one droplet in the model pipeline: rendering (C03) -> labelling -> periodic merging (C02)

The geometric input is Lemmas/BallConn.lean: from every covered cell one can walk by face steps of the
grid's topology, never increasing the distance to the centre, to THE cell nearest to the centre; hence the
covered cells form one component, for every grid, centre and radius. -/

namespace DV.C01
open DV.Merge DV.MergeInv DV.Label DV.LabelInv DV.GridGeom DV.Render DV.BallConn DV.C02 Relation

variable (axes : List Axis) (ctr : List ℚ)

/-- the sharp image of ONE droplet (centre `ctr`, radius `R`) over the flat cells of the grid:
exactly the rendering of C03 (`DV.Render.inside`) -/
def ballMask (R : ℚ) (c : ℕ) : Bool :=
  decide (c < numCells (shapeOf axes)) && inside axes ctr R (unflat (shapeOf axes) c)

theorem ballMask_iff (R : ℚ) (c : ℕ) :
    ballMask axes ctr R c = true ↔ c < numCells (shapeOf axes) ∧ D axes ctr c < R * R := by
  unfold ballMask inside D
  rw [dist2_eq_dist2r]
  simp

theorem adj_faceAdj {a b : ℕ} (h : Adj axes a b) :
    FaceAdj (shapeOf axes) (perOf axes) a b ∨ FaceAdj (shapeOf axes) (perOf axes) b a := by
  obtain ⟨ax, h1 | h2 | h3 | h4⟩ := h
  · exact Or.inl ⟨ax, Or.inl h1⟩
  · exact Or.inl ⟨ax, Or.inr h2⟩
  · exact Or.inr ⟨ax, Or.inl h3⟩
  · exact Or.inr ⟨ax, Or.inr h4⟩

theorem path_conn (R : ℚ) {a b : ℕ} (hp : Path axes ctr a b) (ha : ballMask axes ctr R a = true) :
    ballMask axes ctr R b = true ∧ GridConn (shapeOf axes) (perOf axes) (ballMask axes ctr R) a b := by
  induction hp with
  | refl => exact ⟨ha, EqvGen.refl _⟩
  | tail _ hstep ih =>
    obtain ⟨hb, hconn⟩ := ih
    rename_i b c _
    obtain ⟨_, hc, hadj, hle⟩ := hstep
    have hmc : ballMask axes ctr R c = true := by
      rw [ballMask_iff] at hb ⊢
      exact ⟨hc, lt_of_le_of_lt hle hb.2⟩
    refine ⟨hmc, EqvGen.trans _ _ _ hconn ?_⟩
    rcases adj_faceAdj axes hadj with hf | hf
    · exact EqvGen.rel _ _ ⟨hb, hmc, Or.inr hf⟩
    · exact EqvGen.symm _ _ (EqvGen.rel _ _ ⟨hmc, hb, Or.inr hf⟩)

/-- **The cells covered by a droplet form ONE component of the grid's topology** — for every grid
(any dimension, anisotropic spacing, any mix of periodic axes), every centre (inside or outside the box)
and every radius. -/
theorem ball_connected (h : GridWF axes ctr) (R : ℚ) {c1 c2 : ℕ}
    (m1 : ballMask axes ctr R c1 = true) (m2 : ballMask axes ctr R c2 = true) :
    GridConn (shapeOf axes) (perOf axes) (ballMask axes ctr R) c1 c2 := by
  obtain ⟨t, _, p1, p2⟩ := common_descent axes ctr h ((ballMask_iff axes ctr R c1).mp m1).1 ((ballMask_iff axes ctr R c2).mp m2).1
  exact EqvGen.trans _ _ _ (path_conn axes ctr R p1 m1).2 (EqvGen.symm _ _ (path_conn axes ctr R p2 m2).2)

/-- **Exactly one cluster per droplet.**  Rendering one droplet, labelling the image and merging across
the periodic boundaries (`locateMask`: the pipeline the driver runs against `locate_droplets`) puts
all covered cells into the same cluster. -/
theorem single_droplet_one_cluster (h : GridWF axes ctr) (R : ℚ) (coord : ℕ → ℕ → ℕ) (cells : List ℕ) (shp : ℕ → ℕ) :
    let mask := ballMask axes ctr R
    let L := labelFn (shapeOf axes) mask
    let st := mergeLoop shp L (initSt coord L cells) (edgesOf (shapeOf axes) (perOf axes))
    ∀ c1 c2, mask c1 = true → mask c2 = true → st.lab c1 = st.lab c2 := by
  intro mask L st c1 c2 m1 m2
  have hmask : ∀ c, mask c = true → c < numCells (shapeOf axes) := fun c hc => ((ballMask_iff axes ctr R c).mp hc).1
  exact (locateMask_topology (shapeOf axes) (perOf axes) mask (shape_pos axes ctr h) hmask coord cells shp c1 c2 m1 m2).mpr
    (ball_connected axes ctr h R m1 m2)


/-! ### the executed pipeline returns exactly one cluster with the number of covered cells -/

theorem lab_mem_init (shape : ℕ → ℕ) (lab0 : ℕ → ℕ) (coord : ℕ → ℕ → ℕ) (cells : List ℕ) (edges : List Edge) :
    ∀ c, ∃ c', (mergeLoop shape lab0 (initSt coord lab0 cells) edges).lab c = lab0 c' := by
  have := foldl_inv shape lab0 (fun st _ => ∀ c, ∃ c', st.lab c = lab0 c')
    (fun st es e hinv => by
      by_cases hm : Merging st e
      · intro c
        rw [step_lab shape lab0 st e hm c]
        split
        · exact hinv e.l
        · exact hinv c
      · rw [step_noop shape lab0 st e hm]; exact hinv)
    edges (initSt coord lab0 cells) [] (fun c => ⟨c, rfl⟩)
  simpa [mergeLoop] using this

theorem filter_eq_singleton {p : ℕ → Bool} {a : ℕ} : ∀ (l : List ℕ), l.Nodup → a ∈ l → (∀ x ∈ l, p x = true ↔ x = a) →
    l.filter p = [a]
  | [], _, h, _ => by simp at h
  | y :: l, hnd, hmem, hp => by
    obtain ⟨hy, hnd'⟩ := List.nodup_cons.mp hnd
    by_cases hya : y = a
    · subst hya
      have : p y = true := (hp y List.mem_cons_self).mpr rfl
      rw [List.filter_cons_of_pos this]
      congr 1
      apply List.filter_eq_nil_iff.mpr
      intro x hx hpx
      have := (hp x (List.mem_cons_of_mem _ hx)).mp hpx
      subst this
      exact hy hx
    · have hpy : ¬ p y = true := fun hpy => hya ((hp y List.mem_cons_self).mp hpy)
      rw [List.filter_cons_of_neg hpy]
      have hmem' : a ∈ l := by
        rcases List.mem_cons.mp hmem with h | h
        · exact absurd h.symm hya
        · exact h
      exact filter_eq_singleton l hnd' hmem' (fun x hx => hp x (List.mem_cons_of_mem _ hx))

theorem count_eq_length (lab : ℕ → ℕ) (r : ℕ) (cells : List ℕ) :
    count lab r cells = ((cells.filter fun c => lab c == r).length : ℚ) := by
  unfold count wsum
  induction cells with
  | nil => simp
  | cons c cells ih =>
    simp only [List.map_cons, List.sum_cons, List.filter_cons]
    by_cases hc : lab c = r
    · simp [hc, ih]; ring
    · simp [hc, ih]

theorem edgesOf_cells (shape : List ℕ) (periodic : List Bool) (hpos : ∀ n ∈ shape, 0 < n) :
    ∀ e ∈ edgesOf shape periodic, e.l ∈ List.range (numCells shape) ∧ e.h ∈ List.range (numCells shape) := by
  intro e he
  obtain ⟨h1, _, h3, _, h5⟩ := (mem_edgesOf shape periodic e).mp he
  have hn : shape.getD e.ax 1 - 1 < shape.getD e.ax 1 := by
    have : 0 < shape.getD e.ax 1 := by
      rw [List.getD_eq_getElem?_getD, List.getElem?_eq_getElem h1]
      exact hpos _ (List.getElem_mem h1)
    omega
  have := (setCoord_spec shape hpos e.l e.ax _ hn).1
  exact ⟨List.mem_range.mpr h3, List.mem_range.mpr (h5 ▸ this)⟩

/-- **One droplet in, one cluster out, with the exact number of covered cells.**  For every well-formed
grid, centre and radius such that the droplet covers at least one cell centre, the pipeline that the
driver executes (`locateMask`: labelling + periodic merging) returns a list with exactly ONE entry whose
volume (in cells) is the number of cell centres the droplet covers. -/
theorem locateMask_single (h : GridWF axes ctr) (R : ℚ) (maskL : List Bool)
    (hm : ∀ c, maskL.getD c false = ballMask axes ctr R c) (hne : ∃ c, ballMask axes ctr R c = true) :
    ∃ r pos, locateMask (shapeOf axes) (perOf axes) maskL =
      [(r, (((List.range (numCells (shapeOf axes))).filter (ballMask axes ctr R)).length : ℚ), pos)] := by
  set shape := shapeOf axes with hshape
  set per := perOf axes with hper
  set mask := ballMask axes ctr R with hmaskdef
  have hpos := shape_pos axes ctr h
  have hmfun : (fun c => maskL.toArray.getD c false) = mask := by
    funext c
    rw [← hm c]
    simp only [Array.getD, List.getD_eq_getElem?_getD, List.size_toArray]
    split <;> simp_all
  unfold locateMask
  simp only
  rw [hmfun]
  unfold locateCells
  simp only
  set labels := labelExec shape mask with hlabels
  set n := numCells shape with hn
  set cells := List.range n with hcells
  have hL : (fun c => labels.getD c 0) = labelFn shape mask := rfl
  rw [hL]
  set L := labelFn shape mask with hLdef
  set shp : ℕ → ℕ := fun a => shape.getD a 1 with hshp
  set st := mergeLoop shp L (initSt (coordOf shape) L cells) (edgesOf shape per) with hst
  have hmask : ∀ c, mask c = true → c < n := fun c hc => ((ballMask_iff axes ctr R c).mp hc).1
  obtain ⟨c0, hc0⟩ := hne
  have hone := single_droplet_one_cluster axes ctr h R (coordOf shape) cells shp
  have hposlab := (locateMask_partition shape per mask hmask (coordOf shape) cells shp).1
  set r0 := st.lab c0 with hr0
  have hr0pos : 0 < r0 := (hposlab c0).mpr hc0
  -- the label of every cell: r0 on the mask, 0 elsewhere
  have hlab : ∀ c, st.lab c = if mask c = true then r0 else 0 := by
    intro c
    by_cases hc : mask c = true
    · rw [if_pos hc]; exact hone c c0 hc hc0
    · rw [if_neg hc]
      have : ¬ 0 < st.lab c := (hposlab c).not.mpr hc
      omega
  -- r0 is one of the initial labels
  have hr0le : r0 ≤ labels.foldl max 0 := by
    obtain ⟨c', hc'⟩ := lab_mem_init shp L (coordOf shape) cells (edgesOf shape per) c0
    rw [hr0, hc']
    exact getD_le_foldl_max labels c'
  have hfilter : ((List.range (labels.foldl max 0 + 1)).filter fun r => decide (r > 0) && cells.any fun c => st.lab c == r) = [r0] := by
    apply filter_eq_singleton _ List.nodup_range (List.mem_range.mpr (by omega))
    intro r _
    simp only [Bool.and_eq_true, decide_eq_true_eq, List.any_eq_true, beq_iff_eq]
    constructor
    · rintro ⟨hr, c, _, hc⟩
      rw [hlab c] at hc
      split at hc
      · exact hc.symm
      · omega
    · rintro rfl
      exact ⟨hr0pos, c0, List.mem_range.mpr (hmask c0 hc0), rfl⟩
  rw [hfilter]
  simp only [List.map_cons, List.map_nil]
  refine ⟨r0, (List.range shape.length).map fun a => st.pos r0 a, ?_⟩
  congr 2
  -- volume
  have hpres : Present st cells r0 := ⟨hr0pos, c0, List.mem_range.mpr (hmask c0 hc0), rfl⟩
  have hvol := mergeLoop_volume shp L (coordOf shape) cells (edgesOf shape per) (edgesOf_cells shape per hpos) r0 hpres
  rw [hvol, count_eq_length]
  have hfc : (cells.filter fun c => st.lab c == r0) = cells.filter mask := by
    apply List.filter_congr
    intro c _
    rw [hlab c]
    by_cases hc : mask c = true
    · simp [hc]
    · have : mask c = false := by simpa using hc
      simp [this]; omega
  rw [hfc]

/-- non-vacuity: a 5×8 grid, periodic along the second axis, droplet of radius 1.3 centred at (2.5, 7.9),
i.e. straddling the periodic boundary: the hypotheses hold, and the executed pipeline returns one cluster
of 6 cells at (2.5, 0) ≡ (2.5, 8), within half a cell of the centre -/
def axesEx : List Axis := [⟨0, 1, 5, false⟩, ⟨0, 1, 8, true⟩]

example : GridWF axesEx [5/2, 79/10] := by
  refine ⟨?_, rfl⟩
  intro a ha
  simp only [axesEx, List.mem_cons, List.not_mem_nil, or_false] at ha
  rcases ha with rfl | rfl <;> exact ⟨by norm_num, by norm_num⟩

example : locateMask [5, 8] [false, true] ((List.range 40).map (ballMask axesEx [5/2, 79/10] (13/10)))
    = [(1, 6, [5/2, 0])] := by decide +kernel

end DV.C01

/-! ### one droplet, position: the stored position is within half a cell of the centre

Chain: the wrap counts of the periodic differences are a consistent lift of the droplet's component
(`ballLift_consistent`), so C02's `C02_position_nonwinding` gives the stored position as centre + mean of the
periodic offsets of the covered cells (`single_droplet_position`); the cells of every grid line are all
points of an arithmetic progression inside a ball (`fibre_mean`, via `progression_mean` and the half-cell
lemma `lattice_run_mean`), summed over the grid lines (`ball_offset_mean`). -/

namespace DV.C01
open DV.Merge DV.MergeInv DV.Label DV.LabelInv DV.GridGeom DV.Render DV.BallConn DV.WrapDiff DV.C02 Relation

variable (axes : List Axis) (ctr : List ℚ)

/-- number of periods by which the periodic difference of cell `c` along axis `a` was shifted -/
def wrapCount (c a : ℕ) : ℤ :=
  let ax := axes.getD a default
  if ax.periodic then ((ax.centre (coordOf (shapeOf axes) c a) - ctr.getD a 0 + ax.length / 2) / ax.length).floor else 0

/-- the integer lift that unwraps the droplet: minus the wrap count -/
def ballLift (c a : ℕ) : ℤ := - wrapCount axes ctr c a

/-- the periodic difference is the plain difference minus `wrapCount` periods -/
theorem U_eq_unwrapped (c a : ℕ) :
    U axes ctr c a = (axes.getD a default).centre (coordOf (shapeOf axes) c a) - ctr.getD a 0
      - (wrapCount axes ctr c a : ℚ) * (axes.getD a default).length := by
  rw [U_eq]
  unfold wrapCount Axis.diff
  generalize axes.getD a default = ax
  by_cases hp : ax.periodic = true
  · rw [if_pos hp]; simp only [hp, if_true]
    unfold wrapDiff fmod; ring
  · rw [if_neg hp]; simp only [hp]; simp

theorem dist2r_nonneg : ∀ (axes : List Axis) (ctr : List ℚ) (idx : List ℕ), 0 ≤ dist2r axes ctr idx
  | [], _, _ => by simp [dist2r]
  | _ :: _, [], _ => by simp [dist2r]
  | _ :: _, _ :: _, [] => by simp [dist2r]
  | a :: as, c :: cs, i :: is => by
    simp only [dist2r]
    have := dist2r_nonneg as cs is
    nlinarith [mul_self_nonneg (a.diff c i)]

theorem diffAt_sq_le : ∀ (axes : List Axis) (ctr : List ℚ) (idx : List ℕ) (k : ℕ),
    k < axes.length → k < ctr.length → k < idx.length →
    diffAt axes ctr idx k * diffAt axes ctr idx k ≤ dist2r axes ctr idx
  | [], _, _, _, h, _, _ => by simp at h
  | _ :: _, [], _, _, _, h, _ => by simp at h
  | _ :: _, _ :: _, [], _, _, _, h => by simp at h
  | a :: as, c :: cs, i :: is, 0, _, _, _ => by
    simp only [diffAt, List.getD_cons_zero, dist2r]
    have := dist2r_nonneg as cs is
    linarith
  | a :: as, c :: cs, i :: is, k + 1, h1, h2, h3 => by
    have ih := diffAt_sq_le as cs is k (by simpa using h1) (by simpa using h2) (by simpa using h3)
    simp only [diffAt, List.getD_cons_succ, dist2r] at ih ⊢
    nlinarith [mul_self_nonneg (a.diff c i)]

/-- a cell of the ball is closer than `R` along every axis -/
theorem U_sq_le_D (h : GridWF axes ctr) (c : ℕ) {k : ℕ} (hk : k < axes.length) :
    U axes ctr c k * U axes ctr c k ≤ D axes ctr c := by
  unfold D U
  exact diffAt_sq_le axes ctr _ k hk (by rw [h.len]; exact hk) (by rw [unflat_length axes ctr h]; exact hk)


/-- the droplet is resolved on the periodic axes: it does not reach around the box and meet itself -/
structure Resolved (R : ℚ) : Prop where
  R_nonneg : 0 ≤ R
  per : ∀ k, k < axes.length → (axes.getD k default).periodic = true →
    2 * (R + (axes.getD k default).dx) ≤ (axes.getD k default).length

theorem in_ball_abs (h : GridWF axes ctr) {R : ℚ} (hR : 0 ≤ R) {c : ℕ} (hc : ballMask axes ctr R c = true)
    {k : ℕ} (hk : k < axes.length) : -R < U axes ctr c k ∧ U axes ctr c k < R := by
  have h1 := U_sq_le_D axes ctr h c hk
  have h2 := ((ballMask_iff axes ctr R c).mp hc).2
  constructor <;> nlinarith

theorem coord_of_set (h : GridWF axes ctr) {c c' : ℕ} {k v : ℕ} (hk : k < axes.length)
    (hs : unflat (shapeOf axes) c' = (unflat (shapeOf axes) c).set k v) :
    coordOf (shapeOf axes) c' k = v ∧ ∀ j, j ≠ k → coordOf (shapeOf axes) c' j = coordOf (shapeOf axes) c j := by
  have hlen : k < (unflat (shapeOf axes) c).length := by rw [unflat_length axes ctr h]; exact hk
  constructor
  · unfold coordOf; rw [hs, List.getD_eq_getElem?_getD, List.getElem?_set_self hlen]; rfl
  · intro j hj
    unfold coordOf; rw [hs, List.getD_eq_getElem?_getD, List.getD_eq_getElem?_getD, List.getElem?_set_ne (Ne.symm hj)]

theorem wrapCount_other {c c' a : ℕ} (hco : coordOf (shapeOf axes) c' a = coordOf (shapeOf axes) c a) :
    wrapCount axes ctr c' a = wrapCount axes ctr c a := by
  unfold wrapCount; rw [hco]

/-- along an in-box face step inside the droplet the wrap counts agree -/
theorem wrapCount_stepUp (h : GridWF axes ctr) {R : ℚ} (hres : Resolved axes R) {ax l hh : ℕ}
    (hs : StepUp (shapeOf axes) ax l hh) (ml : ballMask axes ctr R l = true) (mh : ballMask axes ctr R hh = true) :
    ∀ a, wrapCount axes ctr hh a = wrapCount axes ctr l a := by
  obtain ⟨hl, hhN, hax, hset, hlt⟩ := hs
  have hk : ax < axes.length := by unfold shapeOf at hax; simpa using hax
  obtain ⟨c1, c2⟩ := coord_of_set axes ctr h hk hset
  intro a
  by_cases ha : a = ax
  · subst ha
    by_cases hp : (axes.getD a default).periodic = true
    · have hwf := axis_wf axes ctr h hk
      have hL := length_pos _ hwf
      have hi := coord_lt axes ctr h l hk
      have hi' := coord_lt axes ctr h hh hk
      have hup : Up (axes.getD a default) (coordOf (shapeOf axes) l a) (coordOf (shapeOf axes) hh a) :=
        Or.inl ⟨c1, hi'⟩
      have hb := in_ball_abs axes ctr h hres.R_nonneg ml hk
      have hdu := diff_up _ (ctr.getD a 0) hwf hup hi (fun _ => by
        have := hres.per a hk hp
        rw [← U_eq]; linarith [hb.2])
      rw [← U_eq, ← U_eq, U_eq_unwrapped, U_eq_unwrapped, c1, centre_succ] at hdu
      have : ((wrapCount axes ctr hh a : ℚ) - wrapCount axes ctr l a) * (axes.getD a default).length = 0 := by linarith
      have hz : (wrapCount axes ctr hh a : ℚ) - wrapCount axes ctr l a = 0 := by
        rcases mul_eq_zero.mp this with h0 | h0
        · exact h0
        · exact absurd h0 hL.ne'
      have : (wrapCount axes ctr hh a : ℚ) = wrapCount axes ctr l a := by linarith
      exact_mod_cast this
    · unfold wrapCount
      simp only
      rw [if_neg hp, if_neg hp]
  · exact wrapCount_other axes ctr (c2 a ha)

/-- across a periodic boundary pair inside the droplet the wrap count of the upper cell is one larger -/
theorem wrapCount_across (h : GridWF axes ctr) {R : ℚ} (hres : Resolved axes R) {ax l hh : ℕ}
    (hs : Across (shapeOf axes) (perOf axes) ax l hh) (ml : ballMask axes ctr R l = true) (mh : ballMask axes ctr R hh = true) :
    ∀ a, wrapCount axes ctr hh a = wrapCount axes ctr l a + delta a ax := by
  obtain ⟨hl, hhN, hax, hper, h0, hset⟩ := hs
  have hk : ax < axes.length := by unfold shapeOf at hax; simpa using hax
  obtain ⟨c1, c2⟩ := coord_of_set axes ctr h hk hset
  rw [per_getD axes hk] at hper
  rw [shape_getD axes hk] at c1
  intro a
  by_cases ha : a = ax
  · subst ha
    have hwf := axis_wf axes ctr h hk
    have hL := length_pos _ hwf
    have hi' := coord_lt axes ctr h hh hk
    -- the lower-face cell is the upper neighbour of the upper-face cell
    have hup : Up (axes.getD a default) (coordOf (shapeOf axes) hh a) (coordOf (shapeOf axes) l a) :=
      Or.inr ⟨hper, c1, h0, hi'⟩
    have hb := in_ball_abs axes ctr h hres.R_nonneg mh hk
    have hdu := diff_up _ (ctr.getD a 0) hwf hup hi' (fun _ => by
      have := hres.per a hk hper
      rw [← U_eq]; linarith [hb.2])
    rw [← U_eq, ← U_eq, U_eq_unwrapped, U_eq_unwrapped, c1, h0] at hdu
    have hn : ((axes.getD a default).n : ℚ) = (((axes.getD a default).n - 1 : ℕ) : ℚ) + 1 := by
      have := hwf.n_pos
      have : (axes.getD a default).n = ((axes.getD a default).n - 1) + 1 := by omega
      rw [this]; push_cast; simp
    have hcen : (axes.getD a default).centre ((axes.getD a default).n - 1) =
        (axes.getD a default).centre 0 + (axes.getD a default).length - (axes.getD a default).dx := by
      unfold Axis.centre Axis.length; rw [hn]; push_cast; ring
    rw [hcen] at hdu
    have : ((wrapCount axes ctr hh a : ℚ) - wrapCount axes ctr l a - 1) * (axes.getD a default).length = 0 := by linarith
    have hz : (wrapCount axes ctr hh a : ℚ) - wrapCount axes ctr l a - 1 = 0 := by
      rcases mul_eq_zero.mp this with h0 | h0
      · exact h0
      · exact absurd h0 hL.ne'
    have : (wrapCount axes ctr hh a : ℚ) = wrapCount axes ctr l a + 1 := by linarith
    have hz' : wrapCount axes ctr hh a = wrapCount axes ctr l a + 1 := by exact_mod_cast this
    rw [hz']; simp [delta]
  · rw [wrapCount_other axes ctr (c2 a ha)]
    simp [delta, ha]


theorem conn_pos {lab0 : ℕ → ℕ} {es : List Edge} {a b : ℕ} (hc : Conn lab0 es a b) : 0 < lab0 a ↔ 0 < lab0 b := by
  induction hc with
  | rel a b hl => exact ⟨fun _ => hl.2.1, fun _ => hl.1⟩
  | refl a => exact Iff.rfl
  | symm a b _ ih => exact ih.symm
  | trans a b c _ _ ih1 ih2 => exact ih1.trans ih2

/-- **the wrap counts are a consistent lift of the droplet's component**: constant on the in-box
pieces, changing by exactly one period across each periodic boundary pair -/
theorem ballLift_consistent (h : GridWF axes ctr) {R : ℚ} (hres : Resolved axes R) (c0 : ℕ)
    (m0 : ballMask axes ctr R c0 = true) :
    let mask := ballMask axes ctr R
    let L := labelFn (shapeOf axes) mask
    ConsistentLift L (edgesOf (shapeOf axes) (perOf axes)) (Conn L (edgesOf (shapeOf axes) (perOf axes)) c0)
      (ballLift axes ctr) := by
  intro mask L
  have hpos := shape_pos axes ctr h
  have hmask : ∀ c, mask c = true → c < numCells (shapeOf axes) := fun c hc => ((ballMask_iff axes ctr R c).mp hc).1
  obtain ⟨hLpos, hLeq, _, _⟩ := labelExec_isLabelling (shapeOf axes) mask hmask
  have hL0 : 0 < L c0 := (hLpos c0).mpr m0
  constructor
  · intro c1 c2 p1 p2 heq a
    have q1 : mask c1 = true := (hLpos c1).mp ((conn_pos p1).mp hL0)
    have q2 : mask c2 = true := (hLpos c2).mp ((conn_pos p2).mp hL0)
    have hconn := (hLeq c1 c2 q1 q2).mp heq
    unfold ballLift
    congr 1
    clear heq p1 p2 q1 q2
    induction hconn with
    | rel x y hl =>
      obtain ⟨mx, my, hor⟩ := hl
      rcases hor with rfl | ⟨e, he, rfl, rfl⟩
      · rfl
      · have hs := (inboxEdges_iff (shapeOf axes) hpos e.ax e.l e.h).mp (by cases e; exact he)
        exact (wrapCount_stepUp axes ctr h hres hs mx my a).symm
    | refl x => rfl
    | symm x y _ ih => exact ih.symm
    | trans x y z _ _ ih1 ih2 => exact ih1.trans ih2
  · intro e he _ _ pl ph a
    have ml : mask e.l = true := (hLpos e.l).mp pl
    have mh : mask e.h = true := (hLpos e.h).mp ph
    have hs := (edgesOf_iff (shapeOf axes) (perOf axes) hpos e.ax e.l e.h).mp (by cases e; exact he)
    have := wrapCount_across axes ctr h hres hs ml mh a
    unfold ballLift
    omega

theorem wsum_affine (lab : ℕ → ℕ) (r : ℕ) (f : ℕ → ℚ) (α β : ℚ) (cells : List ℕ) :
    wsum lab r (fun c => α * f c + β) cells = α * wsum lab r f cells + β * count lab r cells := by
  unfold count wsum
  induction cells with
  | nil => simp
  | cons c cells ih =>
    simp only [List.map_cons, List.sum_cons, ih]
    split <;> ring

/-- **Position of the single cluster.**  For a resolved droplet the position stored for its cluster,
converted to grid coordinates (`lo + dx · pos`, what `grid.transform(…, "cell", "grid")` does), is the
centre of the droplet plus the mean of the (periodic) offsets of the covered cell centres, up to whole
periods — along every axis. -/
theorem single_droplet_position (h : GridWF axes ctr) {R : ℚ} (hres : Resolved axes R) (c0 : ℕ)
    (m0 : ballMask axes ctr R c0 = true) :
    let mask := ballMask axes ctr R
    let L := labelFn (shapeOf axes) mask
    let cells := List.range (numCells (shapeOf axes))
    let st := mergeLoop (fun a => (shapeOf axes).getD a 1) L (initSt (coordOf (shapeOf axes)) L cells)
      (edgesOf (shapeOf axes) (perOf axes))
    ∃ m : ℕ → ℤ, (∀ a, a < axes.length → (axes.getD a default).periodic = false → m a = 0) ∧ ∀ a, a < axes.length →
      (axes.getD a default).lo + (axes.getD a default).dx * st.pos (st.lab c0) a =
        ctr.getD a 0 + wsum st.lab (st.lab c0) (fun c => U axes ctr c a) cells / count st.lab (st.lab c0) cells
          + (m a : ℚ) * (axes.getD a default).length := by
  intro mask L cells st
  have hpos := shape_pos axes ctr h
  have hmask : ∀ c, mask c = true → c < numCells (shapeOf axes) := fun c hc => ((ballMask_iff axes ctr R c).mp hc).1
  obtain ⟨hLpos, _, _, _⟩ := labelExec_isLabelling (shapeOf axes) mask hmask
  have hL0 : 0 < L c0 := (hLpos c0).mpr m0
  have hc0 : c0 ∈ cells := List.mem_range.mpr (hmask c0 m0)
  have hm := C02_position_explicit (fun a => (shapeOf axes).getD a 1) L (coordOf (shapeOf axes)) cells
    (edgesOf (shapeOf axes) (perOf axes)) (edgesOf_cells (shapeOf axes) (perOf axes) hpos) c0 hc0 hL0
    (ballLift axes ctr) (ballLift_consistent axes ctr h hres c0 m0)
  set m : ℕ → ℤ := fun a => st.off (L c0) a - ballLift axes ctr c0 a with hmdef
  refine ⟨m, ?_, fun a ha => ?_⟩
  · -- no boundary pairs along a non-periodic axis: nothing is ever shifted there
    intro a ha hp
    have hoff := off_zero_along (fun a => (shapeOf axes).getD a 1) L (coordOf (shapeOf axes)) cells
      (edgesOf (shapeOf axes) (perOf axes)) a (by
        intro e he hax
        have := ((mem_edgesOf (shapeOf axes) (perOf axes) e).mp he).2.1
        rw [hax, per_getD axes ha, hp] at this
        exact absurd this (by simp)) (L c0)
    have hl : ballLift axes ctr c0 a = 0 := by
      unfold ballLift wrapCount
      simp only
      rw [hp]; simp
    simp only [hmdef]
    rw [hl]
    have : st.off (L c0) a = 0 := hoff
    omega
  have hcnt : 0 < count st.lab (st.lab c0) cells := count_pos st.lab (st.lab c0) cells ⟨c0, hc0, rfl⟩
  have hma : st.pos (st.lab c0) a =
      wsum st.lab (st.lab c0) (fun c => (coordOf (shapeOf axes) c a : ℚ) + 1 / 2 +
        (ballLift axes ctr c a : ℚ) * (((shapeOf axes).getD a 1 : ℕ) : ℚ)) cells / count st.lab (st.lab c0) cells
        + (m a : ℚ) * (((shapeOf axes).getD a 1 : ℕ) : ℚ) := hm a
  -- pointwise: lo + dx (coord + 1/2 + κ n) = ctr + U
  have hpt : ∀ c, U axes ctr c a = (axes.getD a default).dx * ((coordOf (shapeOf axes) c a : ℚ) + 1 / 2 +
        (ballLift axes ctr c a : ℚ) * (((shapeOf axes).getD a 1 : ℕ) : ℚ))
      + ((axes.getD a default).lo - ctr.getD a 0) := by
    intro c
    rw [U_eq_unwrapped, shape_getD axes ha]
    unfold ballLift Axis.centre Axis.length
    push_cast; ring
  have hw : wsum st.lab (st.lab c0) (fun c => U axes ctr c a) cells =
      (axes.getD a default).dx * wsum st.lab (st.lab c0)
        (fun c => (coordOf (shapeOf axes) c a : ℚ) + 1 / 2 + (ballLift axes ctr c a : ℚ) * (((shapeOf axes).getD a 1 : ℕ) : ℚ)) cells
      + ((axes.getD a default).lo - ctr.getD a 0) * count st.lab (st.lab c0) cells := by
    rw [← wsum_affine]
    congr 1
    funext c
    exact hpt c
  rw [hw, hma]
  generalize wsum st.lab (st.lab c0) (fun c => (coordOf (shapeOf axes) c a : ℚ) + 1 / 2 +
    (ballLift axes ctr c a : ℚ) * (((shapeOf axes).getD a 1 : ℕ) : ℚ)) cells = W
  generalize count st.lab (st.lab c0) cells = C at hcnt ⊢
  rw [shape_getD axes ha]
  unfold Axis.length
  field_simp
  ring

end DV.C01

namespace DV.C01
open Finset BigOperators

/-- **all points of an arithmetic progression inside a ball**: if `J` is exactly the set of integers `j`
with `(u0 + j h)² < q`, the mean of those points is within half a step of the centre -/
theorem progression_mean (u0 h q : ℚ) (hh : 0 < h) (J : Finset ℤ) (hJ : ∀ j, j ∈ J ↔ (u0 + j * h) ^ 2 < q)
    (hne : J.Nonempty) : |∑ j ∈ J, (u0 + j * h)| < J.card * (h / 2) := by
  set a := J.min' hne with ha
  set b := J.max' hne with hb
  have hab : a ≤ b := Finset.min'_le J b (Finset.max'_mem J hne)
  have haJ : a ∈ J := Finset.min'_mem J hne
  have hbJ : b ∈ J := Finset.max'_mem J hne
  set n : ℕ := (b - a).toNat + 1 with hn
  have hbn : a + (n : ℤ) - 1 = b := by
    rw [hn]; push_cast
    rw [Int.toNat_of_nonneg (by omega)]; ring
  -- J is the run a, a+1, …, b
  have hconv : ∀ j, a ≤ j → j ≤ b → j ∈ J := by
    intro j h1 h2
    rw [hJ]
    have pa := (hJ a).mp haJ
    have pb := (hJ b).mp hbJ
    have e1 : (a : ℚ) ≤ j := by exact_mod_cast h1
    have e2 : (j : ℚ) ≤ b := by exact_mod_cast h2
    -- x ↦ x² is convex: the value in between is at most the larger end value
    by_cases hs : 0 ≤ u0 + j * h
    · have : u0 + j * h ≤ u0 + b * h := by nlinarith
      have : -(u0 + b * h) ≤ u0 + j * h := by nlinarith
      nlinarith
    · have hs' : u0 + j * h < 0 := not_le.mp hs
      have : u0 + a * h ≤ u0 + j * h := by nlinarith
      nlinarith
  have hJeq : J = (Finset.range n).image (fun k : ℕ => a + (k : ℤ)) := by
    ext j
    simp only [Finset.mem_image, Finset.mem_range]
    constructor
    · intro hj
      have h1 : a ≤ j := Finset.min'_le J j hj
      have h2 : j ≤ b := Finset.le_max' J j hj
      refine ⟨(j - a).toNat, ?_, ?_⟩
      · rw [hn]; omega
      · rw [Int.toNat_of_nonneg (by omega)]; ring
    · rintro ⟨k, hk, rfl⟩
      apply hconv
      · omega
      · rw [hn] at hk; omega
  have hinj : Set.InjOn (fun k : ℕ => a + (k : ℤ)) (Finset.range n : Set ℕ) := by
    intro x _ y _ hxy
    simp only at hxy
    omega
  have hsum : ∑ j ∈ J, (u0 + j * h) = runSum (u0 - h / 2) h 0 a n := by
    rw [hJeq, Finset.sum_image hinj]
    unfold runSum cellCentre
    apply Finset.sum_congr rfl
    intro k _
    push_cast; ring
  have hcard : J.card = n := by
    rw [hJeq, Finset.card_image_of_injOn hinj, Finset.card_range]
  have hrun : IsRun (u0 - h / 2) h 0 q a n := by
    have cc : ∀ i : ℤ, (cellCentre (u0 - h / 2) h i - 0) ^ 2 = (u0 + i * h) ^ 2 := by
      intro i; unfold cellCentre; ring
    refine ⟨by omega, ?_, ?_, ?_, ?_⟩
    · rw [cc]; exact (hJ a).mp haJ
    · rw [cc, hbn]; exact (hJ b).mp hbJ
    · rw [cc]
      have : a - 1 ∉ J := fun hmem => by
        have := Finset.min'_le J _ hmem
        omega
      have := (hJ (a - 1)).not.mp this
      exact not_lt.mp this
    · rw [cc]
      have hb1 : a + (n : ℤ) = b + 1 := by omega
      rw [hb1]
      have : b + 1 ∉ J := fun hmem => by
        have := Finset.le_max' J _ hmem
        omega
      have := (hJ (b + 1)).not.mp this
      exact not_lt.mp this
  rw [hsum, hcard]
  exact lattice_run_mean (u0 - h / 2) h 0 q hh a n hrun

end DV.C01

namespace DV.C01
open Finset BigOperators DV.Render DV.BallConn DV.WrapDiff

theorem sq_lt_bounds {x q ρ : ℚ} (hρ : 0 ≤ ρ) (hq : q ≤ ρ ^ 2) (hx : x ^ 2 < q) : -ρ < x ∧ x < ρ := by
  constructor <;> nlinarith

/-- value of the (periodic) difference `j` cells away from a reference cell -/
theorem diff_shift (a : Axis) (hwf : Axis.WF a) (c : ℚ) {i0 : ℕ} (hi0 : i0 < a.n) (j : ℤ) :
    (a.periodic = true → -(a.length / 2) ≤ a.diff c i0 + j * a.dx → a.diff c i0 + j * a.dx < a.length / 2 →
      a.diff c (((i0 : ℤ) + j) % a.n).toNat = a.diff c i0 + j * a.dx) ∧
    (a.periodic = false → 0 ≤ (i0 : ℤ) + j → (i0 : ℤ) + j < a.n →
      a.diff c ((i0 : ℤ) + j).toNat = a.diff c i0 + j * a.dx) := by
  have hL := length_pos a hwf
  have hn : (0 : ℤ) < a.n := by exact_mod_cast hwf.n_pos
  constructor
  · intro hp h1 h2
    unfold Axis.diff at h1 h2 ⊢
    simp only [hp, if_true] at h1 h2 ⊢
    obtain ⟨k, hk⟩ := wrapDiff_congr a.length (a.centre i0 - c)
    rw [hk] at h1 h2 ⊢
    have hmod : ((((i0 : ℤ) + j) % a.n).toNat : ℤ) = ((i0 : ℤ) + j) % a.n :=
      Int.toNat_of_nonneg (Int.emod_nonneg _ hn.ne')
    have hdiv := Int.emod_add_mul_ediv ((i0 : ℤ) + j) a.n
    apply wrapDiff_unique a.length _ _ hL (k - ((i0 : ℤ) + j) / a.n)
    · have e : ((((i0 : ℤ) + j) % a.n).toNat : ℚ) = (i0 : ℚ) + j - (a.n : ℚ) * ((((i0 : ℤ) + j) / a.n : ℤ) : ℚ) := by
        have : ((((i0 : ℤ) + j) % a.n).toNat : ℤ) = (i0 : ℤ) + j - a.n * (((i0 : ℤ) + j) / a.n) := by
          rw [hmod]; linarith
        exact_mod_cast this
      unfold Axis.centre Axis.length
      rw [e]; push_cast; ring
    · exact h1
    · exact h2
  · intro hp h1 h2
    rw [diff_nonper a c hp, diff_nonper a c hp]
    have e : ((((i0 : ℤ) + j).toNat : ℕ) : ℚ) = (i0 : ℚ) + j := by
      have : ((((i0 : ℤ) + j).toNat : ℕ) : ℤ) = (i0 : ℤ) + j := Int.toNat_of_nonneg h1
      exact_mod_cast this
    unfold Axis.centre
    rw [e]; ring

end DV.C01

namespace DV.C01
open Finset BigOperators DV.Render DV.BallConn DV.WrapDiff

/-- the droplet is resolved along this axis (radius bound `ρ`): on a periodic axis it does not reach around
the box, on a non-periodic axis it lies inside the box -/
structure AxisResolved (a : Axis) (c ρ : ℚ) : Prop where
  nonneg : 0 ≤ ρ
  per : a.periodic = true → 2 * (ρ + a.dx) ≤ a.length
  box : a.periodic = false → a.lo + ρ ≤ c ∧ c + ρ ≤ a.lo + a.length

/-- **Half-cell bound along one fibre of the grid** (periodic or not): the cells of one grid line whose
(periodic) offset `u` satisfies `u² < q` have offsets whose mean is smaller than half a cell. -/
theorem fibre_mean (a : Axis) (hwf : Axis.WF a) (c q ρ : ℚ) (hq : q ≤ ρ ^ 2) (hres : AxisResolved a c ρ)
    (hne : ((Finset.range a.n).filter fun i => (a.diff c i) ^ 2 < q).Nonempty) :
    |∑ i ∈ (Finset.range a.n).filter (fun i => (a.diff c i) ^ 2 < q), a.diff c i| <
      (((Finset.range a.n).filter fun i => (a.diff c i) ^ 2 < q).card : ℚ) * (a.dx / 2) := by
  set F := (Finset.range a.n).filter fun i => (a.diff c i) ^ 2 < q with hF
  obtain ⟨i0, hi0F⟩ := hne
  have hi0 : i0 < a.n := Finset.mem_range.mp (Finset.mem_filter.mp hi0F).1
  have hu0q : (a.diff c i0) ^ 2 < q := (Finset.mem_filter.mp hi0F).2
  set u0 := a.diff c i0 with hu0
  have hdx := hwf.dx_pos
  have hL := length_pos a hwf
  have hnpos : (0 : ℤ) < a.n := by exact_mod_cast hwf.n_pos
  have hρ := hres.nonneg
  have hu0b := sq_lt_bounds hρ hq hu0q
  have hLn : a.length = a.dx * a.n := rfl
  -- the window of integers
  set J := (Finset.Icc (-(a.n : ℤ)) a.n).filter fun j : ℤ => (u0 + j * a.dx) ^ 2 < q with hJ
  have hJiff : ∀ j : ℤ, j ∈ J ↔ (u0 + j * a.dx) ^ 2 < q := by
    intro j
    simp only [hJ, Finset.mem_filter, Finset.mem_Icc, and_iff_right_iff_imp]
    intro hj
    have hb := sq_lt_bounds hρ hq hj
    -- |j dx| < 2ρ ≤ n dx
    have h2 : 2 * ρ ≤ a.dx * a.n := by
      by_cases hp : a.periodic = true
      · have := hres.per hp; rw [hLn] at this; linarith
      · have hp' : a.periodic = false := by simpa using hp
        have := hres.box hp'; rw [hLn] at this; linarith
    have hjl : -(a.n : ℚ) < j := by
      by_contra hc
      have : (j : ℚ) ≤ -(a.n : ℚ) := not_lt.mp hc
      nlinarith
    have hjr : (j : ℚ) < a.n := by
      by_contra hc
      have : (a.n : ℚ) ≤ j := not_lt.mp hc
      nlinarith
    constructor
    · have : (-(a.n : ℤ) : ℚ) < j := by push_cast; exact hjl
      exact le_of_lt (by exact_mod_cast this)
    · exact le_of_lt (by exact_mod_cast hjr)
  -- the cell that is j steps away from i0
  let g : ℤ → ℕ := fun j => if a.periodic then (((i0 : ℤ) + j) % a.n).toNat else ((i0 : ℤ) + j).toNat
  have hg : ∀ j ∈ J, g j < a.n ∧ a.diff c (g j) = u0 + j * a.dx := by
    intro j hj
    have hjq := (hJiff j).mp hj
    have hb := sq_lt_bounds hρ hq hjq
    by_cases hp : a.periodic = true
    · have hper := hres.per hp
      have hval := (diff_shift a hwf c hi0 j).1 hp (by rw [← hu0]; linarith) (by rw [← hu0]; linarith)
      simp only [g, hp, if_true]
      refine ⟨?_, hval⟩
      have := Int.emod_lt_of_pos ((i0 : ℤ) + j) hnpos
      have h0 := Int.emod_nonneg ((i0 : ℤ) + j) hnpos.ne'
      omega
    · have hp' : a.periodic = false := by simpa using hp
      obtain ⟨b1, b2⟩ := hres.box hp'
      -- centre(i0) + j dx = c + u0 + j dx lies strictly inside the box
      have hcen : a.centre i0 - c = u0 := by rw [hu0, diff_nonper a c hp']
      have hlo : (0 : ℚ) ≤ (i0 : ℚ) + j := by
        unfold Axis.centre at hcen
        by_contra hneg
        have : (i0 : ℚ) + j ≤ -1 := by
          have : (i0 : ℤ) + j ≤ -1 := by
            have : (i0 : ℤ) + j < 0 := by exact_mod_cast not_le.mp hneg
            omega
          exact_mod_cast this
        nlinarith
      have hhi : (i0 : ℚ) + j < a.n := by
        unfold Axis.centre at hcen
        by_contra hge
        have : (a.n : ℚ) ≤ (i0 : ℚ) + j := not_lt.mp hge
        rw [hLn] at b2
        nlinarith
      have h1 : (0 : ℤ) ≤ (i0 : ℤ) + j := by exact_mod_cast hlo
      have h2 : (i0 : ℤ) + j < a.n := by exact_mod_cast hhi
      have hval := (diff_shift a hwf c hi0 j).2 hp' h1 h2
      simp only [g, hp', Bool.false_eq_true, if_false]
      exact ⟨by omega, hval⟩
  have hsum : ∑ i ∈ F, a.diff c i = ∑ j ∈ J, (u0 + j * a.dx) := by
    symm
    apply Finset.sum_bij (fun j _ => g j)
    · intro j hj
      obtain ⟨h1, h2⟩ := hg j hj
      simp only [hF, Finset.mem_filter, Finset.mem_range]
      exact ⟨h1, by rw [h2]; exact (hJiff j).mp hj⟩
    · intro j1 hj1 j2 hj2 heq
      have e1 := (hg j1 hj1).2
      have e2 := (hg j2 hj2).2
      have heq' : g j1 = g j2 := heq
      rw [heq'] at e1
      have : (j1 : ℚ) * a.dx = j2 * a.dx := by linarith
      have : (j1 : ℚ) = j2 := by
        rcases mul_eq_mul_right_iff.mp this with h | h
        · exact h
        · exact absurd h hdx.ne'
      exact_mod_cast this
    · intro i hi
      have hin : i < a.n := Finset.mem_range.mp (Finset.mem_filter.mp hi).1
      have hiq : (a.diff c i) ^ 2 < q := (Finset.mem_filter.mp hi).2
      by_cases hp : a.periodic = true
      · -- periodic: j = (i - i0) - (k_i - k_0) n
        obtain ⟨ki, hki⟩ := wrapDiff_congr a.length (a.centre i - c)
        obtain ⟨k0, hk0⟩ := wrapDiff_congr a.length (a.centre i0 - c)
        have hui : a.diff c i = a.centre i - c - ki * a.length := by unfold Axis.diff; simp only [hp, if_true]; exact hki
        have hu0' : u0 = a.centre i0 - c - k0 * a.length := by rw [hu0]; unfold Axis.diff; simp only [hp, if_true]; exact hk0
        set j : ℤ := ((i : ℤ) - i0) - (ki - k0) * a.n with hj
        have hval : u0 + j * a.dx = a.diff c i := by
          rw [hui, hu0', hj]; unfold Axis.centre Axis.length; push_cast; ring
        have hjJ : j ∈ J := (hJiff j).mpr (by rw [hval]; exact hiq)
        refine ⟨j, hjJ, ?_⟩
        simp only [g, hp, if_true]
        have : ((i0 : ℤ) + j) % a.n = i := by
          have : (i0 : ℤ) + j = i + (-(ki - k0)) * a.n := by rw [hj]; ring
          rw [this, Int.add_mul_emod_self_right]
          exact Int.emod_eq_of_lt (by omega) (by omega)
        rw [this]; simp
      · have hp' : a.periodic = false := by simpa using hp
        set j : ℤ := (i : ℤ) - i0 with hj
        have hval : u0 + j * a.dx = a.diff c i := by
          rw [hu0, diff_nonper a c hp', diff_nonper a c hp', hj]; unfold Axis.centre; push_cast; ring
        have hjJ : j ∈ J := (hJiff j).mpr (by rw [hval]; exact hiq)
        refine ⟨j, hjJ, ?_⟩
        simp only [g, hp', Bool.false_eq_true, if_false]
        have : (i0 : ℤ) + j = i := by rw [hj]; ring
        rw [this]; simp
    · intro j hj
      exact ((hg j hj).2).symm
  have hcard : F.card = J.card := by
    symm
    apply Finset.card_bij (fun j _ => g j)
    · intro j hj
      obtain ⟨h1, h2⟩ := hg j hj
      simp only [hF, Finset.mem_filter, Finset.mem_range]
      exact ⟨h1, by rw [h2]; exact (hJiff j).mp hj⟩
    · intro j1 hj1 j2 hj2 heq
      have e1 := (hg j1 hj1).2
      have e2 := (hg j2 hj2).2
      have heq' : g j1 = g j2 := heq
      rw [heq'] at e1
      have : (j1 : ℚ) * a.dx = j2 * a.dx := by linarith
      have : (j1 : ℚ) = j2 := by
        rcases mul_eq_mul_right_iff.mp this with h | h
        · exact h
        · exact absurd h hdx.ne'
      exact_mod_cast this
    · intro i hi
      -- same witnesses as above
      have hiq : (a.diff c i) ^ 2 < q := (Finset.mem_filter.mp hi).2
      have hin : i < a.n := Finset.mem_range.mp (Finset.mem_filter.mp hi).1
      by_cases hp : a.periodic = true
      · obtain ⟨ki, hki⟩ := wrapDiff_congr a.length (a.centre i - c)
        obtain ⟨k0, hk0⟩ := wrapDiff_congr a.length (a.centre i0 - c)
        have hui : a.diff c i = a.centre i - c - ki * a.length := by unfold Axis.diff; simp only [hp, if_true]; exact hki
        have hu0' : u0 = a.centre i0 - c - k0 * a.length := by rw [hu0]; unfold Axis.diff; simp only [hp, if_true]; exact hk0
        set j : ℤ := ((i : ℤ) - i0) - (ki - k0) * a.n with hj
        have hval : u0 + j * a.dx = a.diff c i := by
          rw [hui, hu0', hj]; unfold Axis.centre Axis.length; push_cast; ring
        refine ⟨j, (hJiff j).mpr (by rw [hval]; exact hiq), ?_⟩
        simp only [g, hp, if_true]
        have : ((i0 : ℤ) + j) % a.n = i := by
          have : (i0 : ℤ) + j = i + (-(ki - k0)) * a.n := by rw [hj]; ring
          rw [this, Int.add_mul_emod_self_right]
          exact Int.emod_eq_of_lt (by omega) (by omega)
        rw [this]; simp
      · have hp' : a.periodic = false := by simpa using hp
        set j : ℤ := (i : ℤ) - i0 with hj
        have hval : u0 + j * a.dx = a.diff c i := by
          rw [hu0, diff_nonper a c hp', diff_nonper a c hp', hj]; unfold Axis.centre; push_cast; ring
        refine ⟨j, (hJiff j).mpr (by rw [hval]; exact hiq), ?_⟩
        simp only [g, hp', Bool.false_eq_true, if_false]
        have : (i0 : ℤ) + j = i := by rw [hj]; ring
        rw [this]; simp
  have hJne : J.Nonempty := ⟨0, (hJiff 0).mpr (by simpa using hu0q)⟩
  rw [hsum, hcard]
  exact progression_mean u0 a.dx q hdx J hJiff hJne

end DV.C01

namespace DV.C01
open Finset BigOperators DV.Merge DV.GridGeom DV.Render DV.BallConn

variable (axes : List Axis) (ctr : List ℚ)

/-- the grid line through `c` along axis `k`, named by its cell with coordinate 0 -/
def lineOf (k c : ℕ) : ℕ := setCoord (shapeOf axes) c k 0

theorem setCoord_self (h : GridWF axes ctr) {c : ℕ} (hc : c < numCells (shapeOf axes)) {k : ℕ} (hk : k < axes.length) :
    setCoord (shapeOf axes) c k (coordOf (shapeOf axes) c k) = c := by
  rw [setCoord_eq]
  have hlen : k < (unflat (shapeOf axes) c).length := by rw [unflat_length axes ctr h]; exact hk
  have : (unflat (shapeOf axes) c).set k (coordOf (shapeOf axes) c k) = unflat (shapeOf axes) c :=
    set_getD_self _ k hlen
  rw [this, flat_unflat (shapeOf axes) (shape_pos axes ctr h) hc]

/-- setting a coordinate twice -/
theorem setCoord_setCoord (h : GridWF axes ctr) (c : ℕ) {k : ℕ} (hk : k < axes.length) {v w : ℕ}
    (hv : v < (axes.getD k default).n) :
    setCoord (shapeOf axes) (setCoord (shapeOf axes) c k v) k w = setCoord (shapeOf axes) c k w := by
  have hpos := shape_pos axes ctr h
  obtain ⟨_, s2⟩ := setCoord_spec (shapeOf axes) hpos c k v (by rw [shape_getD axes hk]; exact hv)
  rw [setCoord_eq (shapeOf axes) (setCoord (shapeOf axes) c k v), s2, List.set_set, ← setCoord_eq]

/-- **Half-cell bound for a droplet, along one axis.**  If the droplet is resolved along axis `k`, the
(periodic) offsets along `k` of all covered cell centres have a mean smaller than half a cell. -/
theorem ball_offset_mean (h : GridWF axes ctr) (R : ℚ) {k : ℕ} (hk : k < axes.length)
    (hres : AxisResolved (axes.getD k default) (ctr.getD k 0) R)
    (hne : ((Finset.range (numCells (shapeOf axes))).filter fun c => ballMask axes ctr R c = true).Nonempty) :
    |∑ c ∈ (Finset.range (numCells (shapeOf axes))).filter (fun c => ballMask axes ctr R c = true), U axes ctr c k| <
      (((Finset.range (numCells (shapeOf axes))).filter fun c => ballMask axes ctr R c = true).card : ℚ)
        * ((axes.getD k default).dx / 2) := by
  set N := numCells (shapeOf axes) with hN
  set S := (Finset.range N).filter fun c => ballMask axes ctr R c = true with hS
  set a := axes.getD k default with ha
  set ck := ctr.getD k 0 with hck
  have hwf : Axis.WF a := axis_wf axes ctr h hk
  have hpos := shape_pos axes ctr h
  have hSmem : ∀ c, c ∈ S ↔ c < N ∧ D axes ctr c < R * R := by
    intro c
    simp only [hS, Finset.mem_filter, Finset.mem_range, ballMask_iff]
    tauto
  -- everything about one grid line
  have hline : ∀ t, t ∈ S.image (lineOf axes k) →
      (S.filter fun c => lineOf axes k c = t).Nonempty ∧
      |∑ c ∈ S.filter (fun c => lineOf axes k c = t), U axes ctr c k| <
        ((S.filter fun c => lineOf axes k c = t).card : ℚ) * (a.dx / 2) := by
    intro t ht
    obtain ⟨c0, hc0S, hc0t⟩ := Finset.mem_image.mp ht
    have hc0 := ((hSmem c0).mp hc0S).1
    have h0n : 0 < a.n := hwf.n_pos
    obtain ⟨t1, t2⟩ := setCoord_spec (shapeOf axes) hpos c0 k 0 (by rw [shape_getD axes hk]; exact h0n)
    have htN : t < N := by rw [← hc0t]; exact t1
    have htk : coordOf (shapeOf axes) t k = 0 := by
      rw [← hc0t]; exact (coord_of_set axes ctr h hk t2).1
    set q := R * R - (D axes ctr t - U axes ctr t k * U axes ctr t k) with hq
    set F := (Finset.range a.n).filter fun i => (a.diff ck i) ^ 2 < q with hF
    -- the cells of the line
    have hcell : ∀ i, i < a.n →
        setCoord (shapeOf axes) t k i < N ∧
        D axes ctr (setCoord (shapeOf axes) t k i) = R * R - q + (a.diff ck i) ^ 2 ∧
        U axes ctr (setCoord (shapeOf axes) t k i) k = a.diff ck i ∧
        coordOf (shapeOf axes) (setCoord (shapeOf axes) t k i) k = i ∧
        lineOf axes k (setCoord (shapeOf axes) t k i) = t := by
      intro i hi
      obtain ⟨s1, s2⟩ := setCoord_spec (shapeOf axes) hpos t k i (by rw [shape_getD axes hk]; exact hi)
      obtain ⟨m1, m2, _, m4⟩ := move_D axes ctr h hk s2
      refine ⟨s1, ?_, m2, m4, ?_⟩
      · rw [m1, hq]; ring
      · unfold lineOf
        rw [setCoord_setCoord axes ctr h t hk hi, ← htk, setCoord_self axes ctr h htN hk]
    have hq_le : q ≤ R ^ 2 := by
      have := U_sq_le_D axes ctr h t hk
      rw [hq]; nlinarith
    -- bijection between the line's covered cells and F
    have hbij_sum : ∑ c ∈ S.filter (fun c => lineOf axes k c = t), U axes ctr c k = ∑ i ∈ F, a.diff ck i := by
      apply Finset.sum_bij (fun c _ => coordOf (shapeOf axes) c k)
      · intro c hc
        obtain ⟨hcS, hct⟩ := Finset.mem_filter.mp hc
        obtain ⟨hcN, hcD⟩ := (hSmem c).mp hcS
        have hi := coord_lt axes ctr h c hk
        have hcs : setCoord (shapeOf axes) t k (coordOf (shapeOf axes) c k) = c := by
          rw [← hct]; unfold lineOf
          rw [setCoord_setCoord axes ctr h c hk h0n, setCoord_self axes ctr h hcN hk]
        obtain ⟨_, e2, _, _, _⟩ := hcell _ hi
        rw [hcs] at e2
        simp only [hF, Finset.mem_filter, Finset.mem_range]
        exact ⟨hi, by nlinarith⟩
      · intro c1 hc1 c2 hc2 heq
        obtain ⟨hc1S, hc1t⟩ := Finset.mem_filter.mp hc1
        obtain ⟨hc2S, hc2t⟩ := Finset.mem_filter.mp hc2
        have e1 : setCoord (shapeOf axes) t k (coordOf (shapeOf axes) c1 k) = c1 := by
          rw [← hc1t]; unfold lineOf
          rw [setCoord_setCoord axes ctr h c1 hk h0n, setCoord_self axes ctr h ((hSmem c1).mp hc1S).1 hk]
        have e2 : setCoord (shapeOf axes) t k (coordOf (shapeOf axes) c2 k) = c2 := by
          rw [← hc2t]; unfold lineOf
          rw [setCoord_setCoord axes ctr h c2 hk h0n, setCoord_self axes ctr h ((hSmem c2).mp hc2S).1 hk]
        have heq' : coordOf (shapeOf axes) c1 k = coordOf (shapeOf axes) c2 k := heq
        rw [← e1, ← e2, heq']
      · intro i hi
        obtain ⟨hin, hiq⟩ := Finset.mem_filter.mp hi
        have hin' := Finset.mem_range.mp hin
        obtain ⟨s1, e2, _, e4, e5⟩ := hcell i hin'
        refine ⟨setCoord (shapeOf axes) t k i, ?_, e4⟩
        simp only [Finset.mem_filter]
        exact ⟨(hSmem _).mpr ⟨s1, by rw [e2]; linarith⟩, e5⟩
      · intro c hc
        obtain ⟨hcS, hct⟩ := Finset.mem_filter.mp hc
        have hcN := ((hSmem c).mp hcS).1
        have hi := coord_lt axes ctr h c hk
        have hcs : setCoord (shapeOf axes) t k (coordOf (shapeOf axes) c k) = c := by
          rw [← hct]; unfold lineOf
          rw [setCoord_setCoord axes ctr h c hk h0n, setCoord_self axes ctr h hcN hk]
        obtain ⟨_, _, e3, _, _⟩ := hcell _ hi
        rw [hcs] at e3
        exact e3
    have hbij_card : (S.filter fun c => lineOf axes k c = t).card = F.card := by
      apply Finset.card_bij (fun c _ => coordOf (shapeOf axes) c k)
      · intro c hc
        obtain ⟨hcS, hct⟩ := Finset.mem_filter.mp hc
        obtain ⟨hcN, hcD⟩ := (hSmem c).mp hcS
        have hi := coord_lt axes ctr h c hk
        have hcs : setCoord (shapeOf axes) t k (coordOf (shapeOf axes) c k) = c := by
          rw [← hct]; unfold lineOf
          rw [setCoord_setCoord axes ctr h c hk h0n, setCoord_self axes ctr h hcN hk]
        obtain ⟨_, e2, _, _, _⟩ := hcell _ hi
        rw [hcs] at e2
        simp only [hF, Finset.mem_filter, Finset.mem_range]
        exact ⟨hi, by nlinarith⟩
      · intro c1 hc1 c2 hc2 heq
        obtain ⟨hc1S, hc1t⟩ := Finset.mem_filter.mp hc1
        obtain ⟨hc2S, hc2t⟩ := Finset.mem_filter.mp hc2
        have e1 : setCoord (shapeOf axes) t k (coordOf (shapeOf axes) c1 k) = c1 := by
          rw [← hc1t]; unfold lineOf
          rw [setCoord_setCoord axes ctr h c1 hk h0n, setCoord_self axes ctr h ((hSmem c1).mp hc1S).1 hk]
        have e2 : setCoord (shapeOf axes) t k (coordOf (shapeOf axes) c2 k) = c2 := by
          rw [← hc2t]; unfold lineOf
          rw [setCoord_setCoord axes ctr h c2 hk h0n, setCoord_self axes ctr h ((hSmem c2).mp hc2S).1 hk]
        have heq' : coordOf (shapeOf axes) c1 k = coordOf (shapeOf axes) c2 k := heq
        rw [← e1, ← e2, heq']
      · intro i hi
        obtain ⟨hin, hiq⟩ := Finset.mem_filter.mp hi
        have hin' := Finset.mem_range.mp hin
        obtain ⟨s1, e2, _, e4, e5⟩ := hcell i hin'
        refine ⟨setCoord (shapeOf axes) t k i, ?_, e4⟩
        simp only [Finset.mem_filter]
        exact ⟨(hSmem _).mpr ⟨s1, by rw [e2]; linarith⟩, e5⟩
    have hne_line : (S.filter fun c => lineOf axes k c = t).Nonempty :=
      ⟨c0, Finset.mem_filter.mpr ⟨hc0S, hc0t⟩⟩
    have hFne : F.Nonempty := by
      rw [← Finset.card_pos, ← hbij_card, Finset.card_pos]; exact hne_line
    refine ⟨hne_line, ?_⟩
    rw [hbij_sum, hbij_card]
    exact fibre_mean a hwf ck q R hq_le hres hFne
  -- sum over the lines
  have hmaps : ∀ c ∈ S, lineOf axes k c ∈ S.image (lineOf axes k) := fun c hc => Finset.mem_image_of_mem _ hc
  rw [← Finset.sum_fiberwise_of_maps_to hmaps, Finset.card_eq_sum_card_fiberwise hmaps]
  push_cast
  rw [Finset.sum_mul]
  have himg : (S.image (lineOf axes k)).Nonempty := hne.image _
  calc |∑ t ∈ S.image (lineOf axes k), ∑ c ∈ S.filter (fun c => lineOf axes k c = t), U axes ctr c k|
      ≤ ∑ t ∈ S.image (lineOf axes k), |∑ c ∈ S.filter (fun c => lineOf axes k c = t), U axes ctr c k| :=
        Finset.abs_sum_le_sum_abs _ _
    _ < ∑ t ∈ S.image (lineOf axes k), ((S.filter fun c => lineOf axes k c = t).card : ℚ) * (a.dx / 2) :=
        Finset.sum_lt_sum_of_nonempty himg (fun t ht => (hline t ht).2)

end DV.C01

namespace DV.C01
open Finset BigOperators DV.Merge DV.MergeInv DV.Label DV.LabelInv DV.GridGeom DV.Render DV.BallConn DV.C02

variable (axes : List Axis) (ctr : List ℚ)

theorem list_range_sum (g : ℕ → ℚ) (n : ℕ) : ((List.range n).map g).sum = ∑ i ∈ Finset.range n, g i := by
  induction n with
  | zero => simp
  | succ n ih => rw [List.range_succ, List.map_append, List.sum_append, ih, Finset.sum_range_succ]; simp

theorem wsum_eq_finset (lab : ℕ → ℕ) (r : ℕ) (f : ℕ → ℚ) (n : ℕ) :
    wsum lab r f (List.range n) = ∑ c ∈ (Finset.range n).filter (fun c => lab c = r), f c := by
  unfold wsum
  rw [list_range_sum, Finset.sum_filter]

theorem count_eq_card (lab : ℕ → ℕ) (r : ℕ) (n : ℕ) :
    count lab r (List.range n) = (((Finset.range n).filter fun c => lab c = r).card : ℚ) := by
  unfold count
  rw [wsum_eq_finset]
  simp

/-- the droplet is resolved along every axis -/
def FullyResolved (R : ℚ) : Prop :=
  ∀ k, k < axes.length → AxisResolved (axes.getD k default) (ctr.getD k 0) R

theorem FullyResolved.resolved {R : ℚ} (hr : FullyResolved axes ctr R) (hd : 0 < axes.length) : Resolved axes R :=
  ⟨(hr 0 hd).nonneg, fun k hk hp => (hr k hk).per hp⟩

/-- **One droplet, end to end: the located position is within half a cell of the centre.**
For every well-formed grid (any dimension ≥ 1, anisotropic spacing, any mix of periodic axes) and every
droplet that is resolved (on periodic axes `2 (R + dx) ≤ L`, on the others the sphere lies inside the box)
and covers at least one cell centre: the position that the pipeline (rendering, labelling, periodic
merging) stores for the single cluster, converted to grid coordinates, differs from the droplet's centre
by less than HALF A CELL along every axis — up to whole periods along periodic axes, exactly along the others. -/
theorem single_droplet_within_half_cell (h : GridWF axes ctr) {R : ℚ} (hr : FullyResolved axes ctr R)
    (hd : 0 < axes.length) (c0 : ℕ) (m0 : ballMask axes ctr R c0 = true) :
    let mask := ballMask axes ctr R
    let L := labelFn (shapeOf axes) mask
    let cells := List.range (numCells (shapeOf axes))
    let st := mergeLoop (fun a => (shapeOf axes).getD a 1) L (initSt (coordOf (shapeOf axes)) L cells)
      (edgesOf (shapeOf axes) (perOf axes))
    ∃ m : ℕ → ℤ, (∀ a, a < axes.length → (axes.getD a default).periodic = false → m a = 0) ∧ ∀ a, a < axes.length →
      |(axes.getD a default).lo + (axes.getD a default).dx * st.pos (st.lab c0) a
        - (m a : ℚ) * (axes.getD a default).length - ctr.getD a 0| < (axes.getD a default).dx / 2 := by
  intro mask L cells st
  obtain ⟨m, hm0, hm⟩ := single_droplet_position axes ctr h (hr.resolved axes ctr hd) c0 m0
  refine ⟨m, hm0, fun a ha => ?_⟩
  have hma := hm a ha
  -- labels: r0 on the mask, 0 elsewhere
  have hmask : ∀ c, mask c = true → c < numCells (shapeOf axes) := fun c hc => ((ballMask_iff axes ctr R c).mp hc).1
  have hone := single_droplet_one_cluster axes ctr h R (coordOf (shapeOf axes)) cells (fun a => (shapeOf axes).getD a 1)
  have hposlab := (locateMask_partition (shapeOf axes) (perOf axes) mask hmask (coordOf (shapeOf axes)) cells
    (fun a => (shapeOf axes).getD a 1)).1
  have hr0pos : 0 < st.lab c0 := (hposlab c0).mpr m0
  have hfilter : (Finset.range (numCells (shapeOf axes))).filter (fun c => st.lab c = st.lab c0) =
      (Finset.range (numCells (shapeOf axes))).filter (fun c => ballMask axes ctr R c = true) := by
    apply Finset.filter_congr
    intro c _
    constructor
    · intro hc
      exact (hposlab c).mp (by rw [hc]; exact hr0pos)
    · intro hc
      exact hone c c0 hc m0
  have hne : ((Finset.range (numCells (shapeOf axes))).filter fun c => ballMask axes ctr R c = true).Nonempty :=
    ⟨c0, Finset.mem_filter.mpr ⟨Finset.mem_range.mpr (hmask c0 m0), m0⟩⟩
  have hbound := ball_offset_mean axes ctr h R ha (hr a ha) hne
  have hw : wsum st.lab (st.lab c0) (fun c => U axes ctr c a) cells =
      ∑ c ∈ (Finset.range (numCells (shapeOf axes))).filter (fun c => ballMask axes ctr R c = true), U axes ctr c a := by
    rw [wsum_eq_finset, hfilter]
  have hc : count st.lab (st.lab c0) cells =
      (((Finset.range (numCells (shapeOf axes))).filter fun c => ballMask axes ctr R c = true).card : ℚ) := by
    rw [count_eq_card, hfilter]
  have hcpos : (0 : ℚ) < (((Finset.range (numCells (shapeOf axes))).filter fun c => ballMask axes ctr R c = true).card : ℚ) := by
    exact_mod_cast Finset.card_pos.mpr hne
  rw [hma, hw, hc]
  have : ctr.getD a 0 + (∑ c ∈ (Finset.range (numCells (shapeOf axes))).filter (fun c => ballMask axes ctr R c = true), U axes ctr c a) /
      (((Finset.range (numCells (shapeOf axes))).filter fun c => ballMask axes ctr R c = true).card : ℚ)
      + (m a : ℚ) * (axes.getD a default).length - (m a : ℚ) * (axes.getD a default).length - ctr.getD a 0
      = (∑ c ∈ (Finset.range (numCells (shapeOf axes))).filter (fun c => ballMask axes ctr R c = true), U axes ctr c a) /
      (((Finset.range (numCells (shapeOf axes))).filter fun c => ballMask axes ctr R c = true).card : ℚ) := by ring
  rw [this, abs_div, abs_of_pos hcpos, div_lt_iff₀ hcpos]
  linarith

/-- non-vacuity of the hypotheses of `single_droplet_within_half_cell`: the droplet of the example above
(5×8 grid, periodic second axis, centre (2.5, 7.9), radius 1.3) is resolved along both axes; the pipeline's
position (2.5, 0) is indeed within half a cell of the centre up to one period along the periodic axis -/
example : FullyResolved axesEx [5/2, 79/10] (13/10) := by
  intro k hk
  have : k = 0 ∨ k = 1 := by simp [axesEx] at hk; omega
  rcases this with rfl | rfl
  · refine ⟨by norm_num, ?_, ?_⟩
    · intro hp; simp [axesEx] at hp
    · intro _; simp [axesEx, Axis.length]; norm_num
  · refine ⟨by norm_num, ?_, ?_⟩
    · intro _; simp [axesEx, Axis.length]; norm_num
    · intro hp; simp [axesEx] at hp

end DV.C01

/-! ### several droplets: the components of the rendered emulsion are the droplets -/

namespace DV.C01
open DV.Merge DV.MergeInv DV.Label DV.LabelInv DV.GridGeom DV.Render DV.BallConn DV.C02 Relation

variable (axes : List Axis)

/-- the sharp image of an emulsion: the union of the droplets' images -/
def emulsionMask (balls : List (List ℚ × ℚ)) (c : ℕ) : Bool :=
  balls.any fun b => ballMask axes b.1 b.2 c

/-- the rendered droplets are separated on the grid: no cell belongs to two droplets and no cell of one
droplet is a face neighbour (under the grid's topology) of a cell of another one -/
def Separated (balls : List (List ℚ × ℚ)) : Prop :=
  ∀ b1 ∈ balls, ∀ b2 ∈ balls, b1 ≠ b2 → ∀ c c', ballMask axes b1.1 b1.2 c = true → ballMask axes b2.1 b2.2 c' = true →
    c ≠ c' ∧ ¬ FaceAdj (shapeOf axes) (perOf axes) c c' ∧ ¬ FaceAdj (shapeOf axes) (perOf axes) c' c

theorem emulsionMask_iff (balls : List (List ℚ × ℚ)) (c : ℕ) :
    emulsionMask axes balls c = true ↔ ∃ b ∈ balls, ballMask axes b.1 b.2 c = true := by
  unfold emulsionMask; simp

theorem gridConn_mono {shape : List ℕ} {per : List Bool} {m1 m2 : ℕ → Bool} (hm : ∀ c, m1 c = true → m2 c = true)
    {a b : ℕ} (h : GridConn shape per m1 a b) : GridConn shape per m2 a b := by
  induction h with
  | rel x y hl => exact EqvGen.rel _ _ ⟨hm x hl.1, hm y hl.2.1, hl.2.2⟩
  | refl x => exact EqvGen.refl _
  | symm x y _ ih => exact EqvGen.symm _ _ ih
  | trans x y z _ _ ih1 ih2 => exact EqvGen.trans _ _ _ ih1 ih2

/-- **Several droplets: the components of the rendered emulsion are exactly the droplets.**  If the
rendered droplets are separated on the grid, two covered cells are connected under the grid's topology
inside the image iff they belong to the same droplet — hence (by `locateMask_topology`) the pipeline forms
exactly one cluster per droplet, each with the cells that droplet covers. -/
theorem emulsion_components (balls : List (List ℚ × ℚ)) (hwf : ∀ b ∈ balls, GridWF axes b.1)
    (hsep : Separated axes balls) {c1 c2 : ℕ}
    (m1 : emulsionMask axes balls c1 = true) (m2 : emulsionMask axes balls c2 = true) :
    GridConn (shapeOf axes) (perOf axes) (emulsionMask axes balls) c1 c2 ↔
      ∃ b ∈ balls, ballMask axes b.1 b.2 c1 = true ∧ ballMask axes b.1 b.2 c2 = true := by
  constructor
  · intro hconn
    -- same membership in every droplet along the whole path
    have key : ∀ b ∈ balls, (ballMask axes b.1 b.2 c1 = true ↔ ballMask axes b.1 b.2 c2 = true) := by
      clear m1 m2
      induction hconn with
      | rel x y hl =>
        obtain ⟨mx, my, hor⟩ := hl
        rcases hor with rfl | hadj
        · intro _ _; exact Iff.rfl
        · obtain ⟨bx, hbx, hx⟩ := (emulsionMask_iff axes balls x).mp mx
          obtain ⟨bY, hbY, hy⟩ := (emulsionMask_iff axes balls y).mp my
          have hsame : bx = bY := by
            by_contra hne
            exact (hsep bx hbx bY hbY hne x y hx hy).2.1 hadj
          subst hsame
          intro b hb
          by_cases hbe : b = bx
          · subst hbe; exact ⟨fun _ => hy, fun _ => hx⟩
          · constructor
            · intro hbx'
              exact absurd rfl (hsep b hb bx hbx hbe x x hbx' hx).1
            · intro hby'
              exact absurd rfl (hsep b hb bx hbx hbe y y hby' hy).1
      | refl x => intro _ _; exact Iff.rfl
      | symm x y _ ih => intro b hb; exact (ih b hb).symm
      | trans x y z _ _ ih1 ih2 => intro b hb; exact (ih1 b hb).trans (ih2 b hb)
    obtain ⟨b, hb, h1⟩ := (emulsionMask_iff axes balls c1).mp m1
    exact ⟨b, hb, h1, (key b hb).mp h1⟩
  · rintro ⟨b, hb, h1, h2⟩
    exact gridConn_mono (fun c hc => (emulsionMask_iff axes balls c).mpr ⟨b, hb, hc⟩)
      (ball_connected axes b.1 (hwf b hb) b.2 h1 h2)

/-- in the pipeline: one cluster per droplet -/
theorem emulsion_one_cluster_each (balls : List (List ℚ × ℚ)) (hwf : ∀ b ∈ balls, GridWF axes b.1)
    (hsep : Separated axes balls) (hpos : ∀ n ∈ shapeOf axes, 0 < n)
    (coord : ℕ → ℕ → ℕ) (cells : List ℕ) (shp : ℕ → ℕ) :
    let mask := emulsionMask axes balls
    let L := labelFn (shapeOf axes) mask
    let st := mergeLoop shp L (initSt coord L cells) (edgesOf (shapeOf axes) (perOf axes))
    ∀ c1 c2, mask c1 = true → mask c2 = true →
      (st.lab c1 = st.lab c2 ↔ ∃ b ∈ balls, ballMask axes b.1 b.2 c1 = true ∧ ballMask axes b.1 b.2 c2 = true) := by
  intro mask L st c1 c2 m1 m2
  have hmask : ∀ c, mask c = true → c < numCells (shapeOf axes) := by
    intro c hc
    obtain ⟨b, _, hb⟩ := (emulsionMask_iff axes balls c).mp hc
    exact ((ballMask_iff axes b.1 b.2 c).mp hb).1
  rw [locateMask_topology (shapeOf axes) (perOf axes) mask hpos hmask coord cells shp c1 c2 m1 m2]
  exact emulsion_components axes balls hwf hsep m1 m2

end DV.C01

/-! ### a droplet inside an image: volume and position of its cluster; emulsions -/

namespace DV.C01
open Finset BigOperators DV.Merge DV.MergeInv DV.Label DV.LabelInv DV.GridGeom DV.Render DV.BallConn DV.C02 Relation

variable (axes : List Axis) (ctr : List ℚ)

/-- in the image `mask`, the component of the cell `c0` under the grid's topology is exactly the set of
cells covered by the droplet (centre `ctr`, radius `R`) -/
structure CompIsBall (mask : ℕ → Bool) (c0 : ℕ) (R : ℚ) : Prop where
  sub : ∀ c, ballMask axes ctr R c = true → mask c = true
  bound : ∀ c, mask c = true → c < numCells (shapeOf axes)
  comp : ∀ c, mask c = true → (GridConn (shapeOf axes) (perOf axes) mask c0 c ↔ ballMask axes ctr R c = true)
  c0in : ballMask axes ctr R c0 = true

section comp
variable {axes ctr}
variable {mask : ℕ → Bool} {c0 : ℕ} {R : ℚ}

/-- the cluster of `c0` consists of the droplet's cells -/
theorem comp_label_iff (h : GridWF axes ctr) (hc : CompIsBall axes ctr mask c0 R) (coord : ℕ → ℕ → ℕ) (cells : List ℕ) (shp : ℕ → ℕ) :
    let L := labelFn (shapeOf axes) mask
    let st := mergeLoop shp L (initSt coord L cells) (edgesOf (shapeOf axes) (perOf axes))
    0 < st.lab c0 ∧ ∀ c, (st.lab c = st.lab c0 ↔ ballMask axes ctr R c = true) := by
  intro L st
  have hpos := shape_pos axes ctr h
  have m0 : mask c0 = true := hc.sub c0 hc.c0in
  have hposlab := (locateMask_partition (shapeOf axes) (perOf axes) mask hc.bound coord cells shp).1
  have h0 : 0 < st.lab c0 := (hposlab c0).mpr m0
  refine ⟨h0, fun c => ?_⟩
  by_cases hm : mask c = true
  · rw [← hc.comp c hm, ← locateMask_topology (shapeOf axes) (perOf axes) mask hpos hc.bound coord cells shp c0 c m0 hm]
    exact eq_comm
  · have hz : ¬ 0 < st.lab c := (hposlab c).not.mpr hm
    constructor
    · intro heq; rw [heq] at hz; exact absurd h0 hz
    · intro hb; exact absurd (hc.sub c hb) hm

theorem comp_lift_consistent (h : GridWF axes ctr) (hres : Resolved axes R) (hc : CompIsBall axes ctr mask c0 R) :
    let L := labelFn (shapeOf axes) mask
    ConsistentLift L (edgesOf (shapeOf axes) (perOf axes)) (Conn L (edgesOf (shapeOf axes) (perOf axes)) c0)
      (ballLift axes ctr) := by
  intro L
  have hpos := shape_pos axes ctr h
  have m0 : mask c0 = true := hc.sub c0 hc.c0in
  obtain ⟨hLpos, hLeq, _, _⟩ := labelExec_isLabelling (shapeOf axes) mask hc.bound
  have hL0 : 0 < L c0 := (hLpos c0).mpr m0
  -- membership of the component = membership of the ball
  have hlab := comp_label_iff h hc (fun _ _ => 0) [] (fun _ => 0)
  have hcompball : ∀ c, Conn L (edgesOf (shapeOf axes) (perOf axes)) c0 c → ballMask axes ctr R c = true := by
    intro c hcn
    have hLc : 0 < L c := (conn_pos hcn).mp hL0
    have inv := labInv_final (fun _ => 0) L (fun _ _ => 0) [] (edgesOf (shapeOf axes) (perOf axes))
    have := inv.eq_of_conn L hcn
    exact (hlab.2 c).mp this.symm
  -- GridConn-neighbours are in the ball together
  have hstep : ∀ x y, mask x = true → mask y = true → GridConn (shapeOf axes) (perOf axes) mask x y →
      (ballMask axes ctr R x = true ↔ ballMask axes ctr R y = true) := by
    intro x y mx my hxy
    rw [← hc.comp x mx, ← hc.comp y my]
    exact ⟨fun hx => EqvGen.trans _ _ _ hx hxy, fun hy => EqvGen.trans _ _ _ hy (EqvGen.symm _ _ hxy)⟩
  constructor
  · intro c1 c2 p1 p2 heq a
    have b1 := hcompball c1 p1
    have q1 : mask c1 = true := hc.sub c1 b1
    have q2 : mask c2 = true := hc.sub c2 (hcompball c2 p2)
    have hconn := (hLeq c1 c2 q1 q2).mp heq
    unfold ballLift
    congr 1
    -- along the in-box path inside the image: stays in the ball, wrap counts agree
    have key : (ballMask axes ctr R c1 = true ↔ ballMask axes ctr R c2 = true) ∧
        (ballMask axes ctr R c1 = true → ∀ a, wrapCount axes ctr c1 a = wrapCount axes ctr c2 a) := by
      clear heq p1 p2 q1 q2 b1
      induction hconn with
      | rel x y hl =>
        obtain ⟨mx, my, hor⟩ := hl
        rcases hor with rfl | ⟨e, he, rfl, rfl⟩
        · exact ⟨Iff.rfl, fun _ _ => rfl⟩
        · have hs := (inboxEdges_iff (shapeOf axes) hpos e.ax e.l e.h).mp (by cases e; exact he)
          have hadj : GridConn (shapeOf axes) (perOf axes) mask e.l e.h :=
            EqvGen.rel _ _ ⟨mx, my, Or.inr ⟨e.ax, Or.inl hs⟩⟩
          have hiff := hstep e.l e.h mx my hadj
          exact ⟨hiff, fun hb a => (wrapCount_stepUp axes ctr h hres hs hb (hiff.mp hb) a).symm⟩
      | refl x => exact ⟨Iff.rfl, fun _ _ => rfl⟩
      | symm x y _ ih => exact ⟨ih.1.symm, fun hb a => (ih.2 (ih.1.mpr hb) a).symm⟩
      | trans x y z _ _ ih1 ih2 =>
        exact ⟨ih1.1.trans ih2.1, fun hb a => (ih1.2 hb a).trans (ih2.2 (ih1.1.mp hb) a)⟩
    exact key.2 b1 a
  · intro e he pl ph _ _ a
    have ml := hcompball e.l pl
    have mh := hcompball e.h ph
    have hs := (edgesOf_iff (shapeOf axes) (perOf axes) hpos e.ax e.l e.h).mp (by cases e; exact he)
    have := wrapCount_across axes ctr h hres hs ml mh a
    unfold ballLift
    omega

/-- **One droplet of an emulsion (or alone): volume and position of its cluster.**  If the component of `c0`
in the image is exactly the droplet's set of covered cells and the droplet is resolved, then the cluster of
`c0` has the volume (in cells) of the covered cells and its position, in grid coordinates, is within half a
cell of the droplet's centre along every axis (up to whole periods along periodic axes only). -/
theorem comp_volume_and_position (h : GridWF axes ctr) (hr : FullyResolved axes ctr R) (hd : 0 < axes.length)
    (hc : CompIsBall axes ctr mask c0 R) :
    let L := labelFn (shapeOf axes) mask
    let cells := List.range (numCells (shapeOf axes))
    let st := mergeLoop (fun a => (shapeOf axes).getD a 1) L (initSt (coordOf (shapeOf axes)) L cells)
      (edgesOf (shapeOf axes) (perOf axes))
    st.vol (st.lab c0) = (((Finset.range (numCells (shapeOf axes))).filter fun c => ballMask axes ctr R c = true).card : ℚ) ∧
    ∃ m : ℕ → ℤ, (∀ a, a < axes.length → (axes.getD a default).periodic = false → m a = 0) ∧ ∀ a, a < axes.length →
      |(axes.getD a default).lo + (axes.getD a default).dx * st.pos (st.lab c0) a
        - (m a : ℚ) * (axes.getD a default).length - ctr.getD a 0| < (axes.getD a default).dx / 2 := by
  intro L cells st
  have hpos := shape_pos axes ctr h
  have hres := hr.resolved axes ctr hd
  have m0 : mask c0 = true := hc.sub c0 hc.c0in
  obtain ⟨hLpos, _, _, _⟩ := labelExec_isLabelling (shapeOf axes) mask hc.bound
  have hL0 : 0 < L c0 := (hLpos c0).mpr m0
  have hc0 : c0 ∈ cells := List.mem_range.mpr (hc.bound c0 m0)
  obtain ⟨hr0pos, hlab⟩ := comp_label_iff h hc (coordOf (shapeOf axes)) cells (fun a => (shapeOf axes).getD a 1)
  have hfilter : (Finset.range (numCells (shapeOf axes))).filter (fun c => st.lab c = st.lab c0) =
      (Finset.range (numCells (shapeOf axes))).filter (fun c => ballMask axes ctr R c = true) :=
    Finset.filter_congr (fun c _ => hlab c)
  have hne : ((Finset.range (numCells (shapeOf axes))).filter fun c => ballMask axes ctr R c = true).Nonempty :=
    ⟨c0, Finset.mem_filter.mpr ⟨Finset.mem_range.mpr (hc.bound c0 m0), hc.c0in⟩⟩
  have hcnt : count st.lab (st.lab c0) cells =
      (((Finset.range (numCells (shapeOf axes))).filter fun c => ballMask axes ctr R c = true).card : ℚ) := by
    rw [count_eq_card, hfilter]
  constructor
  · have hpres : Present st cells (st.lab c0) := ⟨hr0pos, c0, hc0, rfl⟩
    rw [mergeLoop_volume (fun a => (shapeOf axes).getD a 1) L (coordOf (shapeOf axes)) cells
      (edgesOf (shapeOf axes) (perOf axes)) (edgesOf_cells (shapeOf axes) (perOf axes) hpos) (st.lab c0) hpres, hcnt]
  · have hm := C02_position_explicit (fun a => (shapeOf axes).getD a 1) L (coordOf (shapeOf axes)) cells
      (edgesOf (shapeOf axes) (perOf axes)) (edgesOf_cells (shapeOf axes) (perOf axes) hpos) c0 hc0 hL0
      (ballLift axes ctr) (comp_lift_consistent h hres hc)
    set m : ℕ → ℤ := fun a => st.off (L c0) a - ballLift axes ctr c0 a with hmdef
    refine ⟨m, ?_, fun a ha => ?_⟩
    · intro a ha hp
      have hoff := off_zero_along (fun a => (shapeOf axes).getD a 1) L (coordOf (shapeOf axes)) cells
        (edgesOf (shapeOf axes) (perOf axes)) a (by
          intro e he hax
          have := ((mem_edgesOf (shapeOf axes) (perOf axes) e).mp he).2.1
          rw [hax, per_getD axes ha, hp] at this
          exact absurd this (by simp)) (L c0)
      have hl : ballLift axes ctr c0 a = 0 := by
        unfold ballLift wrapCount
        simp only
        rw [hp]; simp
      simp only [hmdef]
      rw [hl]
      have : st.off (L c0) a = 0 := hoff
      omega
    · have hcpos : (0 : ℚ) < count st.lab (st.lab c0) cells := by rw [hcnt]; exact_mod_cast Finset.card_pos.mpr hne
      have hma : st.pos (st.lab c0) a =
          wsum st.lab (st.lab c0) (fun c => (coordOf (shapeOf axes) c a : ℚ) + 1 / 2 +
            (ballLift axes ctr c a : ℚ) * (((shapeOf axes).getD a 1 : ℕ) : ℚ)) cells / count st.lab (st.lab c0) cells
            + (m a : ℚ) * (((shapeOf axes).getD a 1 : ℕ) : ℚ) := hm a
      have hpt : ∀ c, U axes ctr c a = (axes.getD a default).dx * ((coordOf (shapeOf axes) c a : ℚ) + 1 / 2 +
            (ballLift axes ctr c a : ℚ) * (((shapeOf axes).getD a 1 : ℕ) : ℚ))
          + ((axes.getD a default).lo - ctr.getD a 0) := by
        intro c
        rw [U_eq_unwrapped, shape_getD axes ha]
        unfold ballLift Axis.centre Axis.length
        push_cast; ring
      have hw : wsum st.lab (st.lab c0) (fun c => U axes ctr c a) cells =
          (axes.getD a default).dx * wsum st.lab (st.lab c0)
            (fun c => (coordOf (shapeOf axes) c a : ℚ) + 1 / 2 + (ballLift axes ctr c a : ℚ) * (((shapeOf axes).getD a 1 : ℕ) : ℚ)) cells
          + ((axes.getD a default).lo - ctr.getD a 0) * count st.lab (st.lab c0) cells := by
        rw [← wsum_affine]
        congr 1
        funext c
        exact hpt c
      have hbound := ball_offset_mean axes ctr h R ha (hr a ha) hne
      have hwU : wsum st.lab (st.lab c0) (fun c => U axes ctr c a) cells =
          ∑ c ∈ (Finset.range (numCells (shapeOf axes))).filter (fun c => ballMask axes ctr R c = true), U axes ctr c a := by
        rw [wsum_eq_finset, hfilter]
      rw [hwU] at hw
      rw [hma]
      generalize wsum st.lab (st.lab c0) (fun c => (coordOf (shapeOf axes) c a : ℚ) + 1 / 2 +
        (ballLift axes ctr c a : ℚ) * (((shapeOf axes).getD a 1 : ℕ) : ℚ)) cells = W at hw ⊢
      rw [hcnt] at hcpos hw ⊢
      generalize (((Finset.range (numCells (shapeOf axes))).filter fun c => ballMask axes ctr R c = true).card : ℚ) = C at hcpos hw hbound ⊢
      generalize (∑ c ∈ (Finset.range (numCells (shapeOf axes))).filter (fun c => ballMask axes ctr R c = true), U axes ctr c a) = SU at hw hbound
      rw [shape_getD axes ha]
      have hdxn : (axes.getD a default).length = (axes.getD a default).dx * ((axes.getD a default).n : ℚ) := rfl
      rw [hdxn]
      have e : (axes.getD a default).lo + (axes.getD a default).dx * (W / C + (m a : ℚ) * ((axes.getD a default).n : ℚ))
          - (m a : ℚ) * ((axes.getD a default).dx * ((axes.getD a default).n : ℚ)) - ctr.getD a 0 = SU / C := by
        rw [hw]; field_simp; ring
      rw [e, abs_div, abs_of_pos hcpos, div_lt_iff₀ hcpos]
      linarith

end comp
end DV.C01

namespace DV.C01
open Finset BigOperators DV.Merge DV.MergeInv DV.Label DV.LabelInv DV.GridGeom DV.Render DV.BallConn DV.C02 Relation

variable (axes : List Axis)

theorem emulsion_compIsBall (balls : List (List ℚ × ℚ)) (hwf : ∀ b ∈ balls, GridWF axes b.1)
    (hsep : Separated axes balls) (b : List ℚ × ℚ) (hb : b ∈ balls) (c0 : ℕ) (h0 : ballMask axes b.1 b.2 c0 = true) :
    CompIsBall axes b.1 (emulsionMask axes balls) c0 b.2 := by
  refine ⟨fun c hc => (emulsionMask_iff axes balls c).mpr ⟨b, hb, hc⟩, ?_, ?_, h0⟩
  · intro c hc
    obtain ⟨b', _, hb'⟩ := (emulsionMask_iff axes balls c).mp hc
    exact ((ballMask_iff axes b'.1 b'.2 c).mp hb').1
  · intro c hc
    have m0 : emulsionMask axes balls c0 = true := (emulsionMask_iff axes balls c0).mpr ⟨b, hb, h0⟩
    rw [emulsion_components axes balls hwf hsep m0 hc]
    constructor
    · rintro ⟨b', hb', h1, h2⟩
      by_cases hbb : b' = b
      · subst hbb; exact h2
      · exact absurd rfl (hsep b' hb' b hb hbb c0 c0 h1 h0).1
    · intro hcb
      exact ⟨b, hb, h0, hcb⟩

/-- **C01 for an emulsion, in the model pipeline.**  Render any number of droplets; if their images are
separated on the grid (`Separated`) then for EVERY resolved droplet the pipeline (labelling + periodic
merging of the union image) has one cluster consisting of exactly that droplet's cells, with the volume
of the covered cells and a position within half a cell of the droplet's centre along every axis. -/
theorem emulsion_droplet_located (balls : List (List ℚ × ℚ)) (hwf : ∀ b ∈ balls, GridWF axes b.1)
    (hsep : Separated axes balls) (hd : 0 < axes.length) (b : List ℚ × ℚ) (hb : b ∈ balls)
    (hr : FullyResolved axes b.1 b.2) (c0 : ℕ) (h0 : ballMask axes b.1 b.2 c0 = true) :
    let mask := emulsionMask axes balls
    let L := labelFn (shapeOf axes) mask
    let cells := List.range (numCells (shapeOf axes))
    let st := mergeLoop (fun a => (shapeOf axes).getD a 1) L (initSt (coordOf (shapeOf axes)) L cells)
      (edgesOf (shapeOf axes) (perOf axes))
    (∀ c, st.lab c = st.lab c0 ↔ ballMask axes b.1 b.2 c = true) ∧
    st.vol (st.lab c0) = (((Finset.range (numCells (shapeOf axes))).filter fun c => ballMask axes b.1 b.2 c = true).card : ℚ) ∧
    ∃ m : ℕ → ℤ, (∀ a, a < axes.length → (axes.getD a default).periodic = false → m a = 0) ∧ ∀ a, a < axes.length →
      |(axes.getD a default).lo + (axes.getD a default).dx * st.pos (st.lab c0) a
        - (m a : ℚ) * (axes.getD a default).length - b.1.getD a 0| < (axes.getD a default).dx / 2 := by
  intro mask L cells st
  have hc := emulsion_compIsBall axes balls hwf hsep b hb c0 h0
  have h := hwf b hb
  exact ⟨(comp_label_iff h hc (coordOf (shapeOf axes)) cells (fun a => (shapeOf axes).getD a 1)).2,
    comp_volume_and_position h hr hd hc⟩

end DV.C01

/-! ### the image of C01/C02 is what rendering (C03) and thresholding (C18) produce -/

namespace DV.C01
open DV DV.Gen DV.Render DV.BallConn

/-- **Rendering, then thresholding at the midpoint, gives exactly the cells the droplet covers**: for a
diffuse droplet (`w > 0`, `vmin < vmax`, `R ≥ 0`) the rendered value of a cell whose squared distance from
the centre is `d2` exceeds `(vmin + vmax)/2` iff `d2 < R²` — the condition `DV.Render.inside` / `ballMask`
evaluates exactly.  This is the link rendering (C03) → threshold rule 'extrema'/0.5 (C18) → image of C01/C02. -/
theorem threshold_of_render_is_ball (vmin vmax R w d2 : ℝ) (h : vmin < vmax) (hw : 0 < w) (hR : 0 ≤ R) (hd : 0 ≤ d2) :
    (vmin + vmax) / 2 < scale_field vmin vmax (render_value diffuse_inside diffuse_smooth R w (Real.sqrt d2) false)
      ↔ d2 < R * R := by
  rw [DV.C03.rendered_gt_mid_iff vmin vmax R w _ h hw]
  constructor
  · intro hlt
    have h0 := Real.sqrt_nonneg d2
    have hsq := Real.sq_sqrt hd
    nlinarith
  · intro hlt
    rw [show R = Real.sqrt (R * R) by rw [Real.sqrt_mul_self hR]]
    exact Real.sqrt_lt_sqrt hd hlt

end DV.C01

namespace DV.C01
open Finset BigOperators DV.Merge DV.GridGeom DV.Render DV.BallConn DV.WrapDiff DV.C02

/-! ### a physical separation of the centres implies `Separated` -/

theorem dist2r_eq_sum : ∀ (axes : List Axis) (ctr : List ℚ) (idx : List ℕ), ctr.length = axes.length → idx.length = axes.length →
    dist2r axes ctr idx = ∑ a ∈ Finset.range axes.length, diffAt axes ctr idx a * diffAt axes ctr idx a
  | [], _, _, _, _ => by simp [dist2r]
  | a :: as, [], _, h, _ => by simp at h
  | a :: as, _ :: _, [], _, h => by simp at h
  | a :: as, c :: cs, i :: is, h1, h2 => by
    have ih := dist2r_eq_sum as cs is (by simpa using h1) (by simpa using h2)
    simp only [dist2r, List.length_cons]
    rw [Finset.sum_range_succ', ih]
    simp only [diffAt, List.getD_cons_succ, List.getD_cons_zero]
    ring

/-- the periodic difference is the smallest representative -/
theorem wrapDiff_min (L w w' : ℚ) (hL : 0 < L) (k : ℤ) (h : w' = w + k * L) : (wrapDiff L w) ^ 2 ≤ w' ^ 2 := by
  obtain ⟨k0, hk0⟩ := wrapDiff_congr L w
  obtain ⟨r1, r2⟩ := wrapDiff_range L w hL
  set v := wrapDiff L w with hv
  have hw' : w' = v + ((k + k0 : ℤ) : ℚ) * L := by rw [h, hk0]; push_cast; ring
  rcases lt_trichotomy (k + k0) 0 with hneg | hzero | hposm
  · have : ((k + k0 : ℤ) : ℚ) ≤ -1 := by exact_mod_cast Int.le_sub_one_of_lt hneg
    have hle : w' ≤ v - L := by rw [hw']; nlinarith
    nlinarith
  · rw [hw', hzero]; simp
  · have : (1 : ℚ) ≤ ((k + k0 : ℤ) : ℚ) := by exact_mod_cast hposm
    have hge : v + L ≤ w' := by rw [hw']; nlinarith
    nlinarith

/-- Minkowski's inequality for three vectors, in squared form -/
theorem minkowski3 (s : Finset ℕ) (a b c : ℕ → ℚ) (A B C : ℚ) (hA : 0 ≤ A) (hB : 0 ≤ B) (hC : 0 ≤ C)
    (ha : ∑ i ∈ s, a i ^ 2 < A ^ 2) (hb : ∑ i ∈ s, b i ^ 2 ≤ B ^ 2) (hc : ∑ i ∈ s, c i ^ 2 ≤ C ^ 2) :
    ∑ i ∈ s, (a i + b i + c i) ^ 2 < (A + B + C) ^ 2 := by
  have cs : ∀ (f g : ℕ → ℚ) (F G : ℚ), 0 ≤ F → 0 ≤ G → ∑ i ∈ s, f i ^ 2 ≤ F ^ 2 → ∑ i ∈ s, g i ^ 2 ≤ G ^ 2 →
      ∑ i ∈ s, f i * g i ≤ F * G := by
    intro f g F G hF hG hf hg
    have h := Finset.sum_mul_sq_le_sq_mul_sq s f g
    have hf0 : 0 ≤ ∑ i ∈ s, f i ^ 2 := Finset.sum_nonneg fun i _ => sq_nonneg _
    have hg0 : 0 ≤ ∑ i ∈ s, g i ^ 2 := Finset.sum_nonneg fun i _ => sq_nonneg _
    have : (∑ i ∈ s, f i * g i) ^ 2 ≤ (F * G) ^ 2 := by
      calc (∑ i ∈ s, f i * g i) ^ 2 ≤ (∑ i ∈ s, f i ^ 2) * (∑ i ∈ s, g i ^ 2) := h
        _ ≤ F ^ 2 * G ^ 2 := mul_le_mul hf hg hg0 (sq_nonneg F)
        _ = (F * G) ^ 2 := by ring
    exact (abs_le_of_sq_le_sq' this (mul_nonneg hF hG)).2
  have hab := cs a b A B hA hB ha.le hb
  have hac := cs a c A C hA hC ha.le hc
  have hbc := cs b c B C hB hC hb hc
  have expand : ∑ i ∈ s, (a i + b i + c i) ^ 2 =
      ∑ i ∈ s, a i ^ 2 + ∑ i ∈ s, b i ^ 2 + ∑ i ∈ s, c i ^ 2
        + 2 * ∑ i ∈ s, a i * b i + 2 * ∑ i ∈ s, a i * c i + 2 * ∑ i ∈ s, b i * c i := by
    simp only [Finset.mul_sum, ← Finset.sum_add_distrib]
    apply Finset.sum_congr rfl
    intro i _; ring
  rw [expand]
  nlinarith


variable (axes : List Axis)

/-- periodic difference of two centres along axis `a` -/
def cdiff (p q : List ℚ) (a : ℕ) : ℚ :=
  if (axes.getD a default).periodic = true then wrapDiff (axes.getD a default).length (p.getD a 0 - q.getD a 0)
  else p.getD a 0 - q.getD a 0

/-- squared distance of two centres under the grid's periodic metric -/
def cdist2 (p q : List ℚ) : ℚ := ∑ a ∈ Finset.range axes.length, cdiff axes p q a ^ 2

theorem D_eq_sum {ctr : List ℚ} (h : GridWF axes ctr) (c : ℕ) :
    D axes ctr c = ∑ a ∈ Finset.range axes.length, U axes ctr c a ^ 2 := by
  unfold D U
  rw [dist2r_eq_sum axes ctr _ h.len (unflat_length axes ctr h c)]
  apply Finset.sum_congr rfl
  intro a _; ring

theorem centre_coord_shift (ax : Axis) (i i' : ℕ) : ax.centre i' - ax.centre i = ((i' : ℚ) - i) * ax.dx := by
  unfold Axis.centre; ring

/-- the centres of two cells that are equal or face neighbours differ, along every axis, by at most one
cell — up to one period along a periodic axis -/
theorem step_offsets {p : List ℚ} (h : GridWF axes p) (hmax : ℚ) (hh : ∀ a ∈ axes, a.dx ≤ hmax)
    {c c' : ℕ} (hadj : c = c' ∨ FaceAdj (shapeOf axes) (perOf axes) c c' ∨ FaceAdj (shapeOf axes) (perOf axes) c' c) :
    ∃ (e : ℕ → ℚ) (j : ℕ → ℤ), ∑ a ∈ Finset.range axes.length, e a ^ 2 ≤ hmax ^ 2 ∧
      ∀ a, a < axes.length →
        (axes.getD a default).centre (coordOf (shapeOf axes) c' a) - (axes.getD a default).centre (coordOf (shapeOf axes) c a)
          = e a + (j a : ℚ) * (axes.getD a default).length ∧
        ((axes.getD a default).periodic = false → j a = 0) := by
  have hdxle : ∀ k, k < axes.length → (axes.getD k default).dx ≤ hmax ∧ 0 < (axes.getD k default).dx := by
    intro k hk
    have hm : axes.getD k default ∈ axes := by
      rw [List.getD_eq_getElem?_getD, List.getElem?_eq_getElem hk]; exact List.getElem_mem hk
    exact ⟨hh _ hm, (h.wf _ hm).dx_pos⟩
  -- generic construction: the two cells differ only along `ax`, by `s` cells plus `t` periods
  have build : ∀ (ax : ℕ) (hax : ax < axes.length) (s : ℚ) (t : ℤ), (s = 1 ∨ s = -1) →
      ((axes.getD ax default).periodic = false → t = 0) →
      ((axes.getD ax default).centre (coordOf (shapeOf axes) c' ax) - (axes.getD ax default).centre (coordOf (shapeOf axes) c ax)
          = s * (axes.getD ax default).dx + (t : ℚ) * (axes.getD ax default).length) →
      (∀ a, a ≠ ax → coordOf (shapeOf axes) c' a = coordOf (shapeOf axes) c a) →
      ∃ (e : ℕ → ℚ) (j : ℕ → ℤ), ∑ a ∈ Finset.range axes.length, e a ^ 2 ≤ hmax ^ 2 ∧
        ∀ a, a < axes.length →
          (axes.getD a default).centre (coordOf (shapeOf axes) c' a) - (axes.getD a default).centre (coordOf (shapeOf axes) c a)
            = e a + (j a : ℚ) * (axes.getD a default).length ∧
          ((axes.getD a default).periodic = false → j a = 0) := by
    intro ax hax s t hs ht hcen hoth
    refine ⟨fun a => if a = ax then s * (axes.getD ax default).dx else 0, fun a => if a = ax then t else 0, ?_, ?_⟩
    · rw [Finset.sum_eq_single ax]
      · simp only [if_true]
        obtain ⟨h1, h2⟩ := hdxle ax hax
        have h0 : 0 ≤ hmax := le_trans h2.le h1
        rcases hs with rfl | rfl <;> nlinarith
      · intro b _ hb; simp [hb]
      · intro hn; exact absurd (Finset.mem_range.mpr hax) hn
    · intro a ha
      by_cases hax' : a = ax
      · subst hax'
        simp only [if_true]
        exact ⟨hcen, ht⟩
      · simp only [hax', if_false]
        rw [hoth a hax']
        simp
  rcases hadj with rfl | hf | hf
  · exact ⟨fun _ => 0, fun _ => 0, by simp; exact sq_nonneg _, fun a _ => by simp⟩
  · obtain ⟨ax, hs | hs⟩ := hf
    · obtain ⟨_, _, hax, hset, _⟩ := hs
      have hk : ax < axes.length := by unfold shapeOf at hax; simpa using hax
      obtain ⟨c1, c2⟩ := coord_of_set axes p h hk hset
      refine build ax hk 1 0 (Or.inl rfl) (fun _ => rfl) ?_ c2
      rw [centre_coord_shift, c1]; push_cast; ring
    · obtain ⟨_, _, hax, hper, h0, hset⟩ := hs
      have hk : ax < axes.length := by unfold shapeOf at hax; simpa using hax
      obtain ⟨c1, c2⟩ := coord_of_set axes p h hk hset
      rw [per_getD axes hk] at hper
      rw [shape_getD axes hk] at c1
      have hn := (axis_wf axes p h hk).n_pos
      refine build ax hk (-1) 1 (Or.inr rfl) (fun hp => by rw [hper] at hp; simp at hp) ?_ c2
      rw [centre_coord_shift, c1, h0]
      have : (((axes.getD ax default).n - 1 : ℕ) : ℚ) = ((axes.getD ax default).n : ℚ) - 1 := by
        rw [Nat.cast_sub hn]; simp
      rw [this]; unfold Axis.length; push_cast; ring
  · obtain ⟨ax, hs | hs⟩ := hf
    · obtain ⟨_, _, hax, hset, _⟩ := hs
      have hk : ax < axes.length := by unfold shapeOf at hax; simpa using hax
      obtain ⟨c1, c2⟩ := coord_of_set axes p h hk hset
      refine build ax hk (-1) 0 (Or.inr rfl) (fun _ => rfl) ?_ (fun a ha => (c2 a ha).symm)
      rw [centre_coord_shift, c1]; push_cast; ring
    · obtain ⟨_, _, hax, hper, h0, hset⟩ := hs
      have hk : ax < axes.length := by unfold shapeOf at hax; simpa using hax
      obtain ⟨c1, c2⟩ := coord_of_set axes p h hk hset
      rw [per_getD axes hk] at hper
      rw [shape_getD axes hk] at c1
      have hn := (axis_wf axes p h hk).n_pos
      refine build ax hk 1 (-1) (Or.inl rfl) (fun hp => by rw [hper] at hp; simp at hp) ?_ (fun a ha => (c2 a ha).symm)
      rw [centre_coord_shift, c1, h0]
      have : (((axes.getD ax default).n - 1 : ℕ) : ℚ) = ((axes.getD ax default).n : ℚ) - 1 := by
        rw [Nat.cast_sub hn]; simp
      rw [this]; unfold Axis.length; push_cast; ring


/-- **Droplets whose centres are further apart than `R₁ + R₂ + h` (periodic metric, `h` ≥ every cell size)
are separated on the grid**: no cell is covered by both and no covered cells are face neighbours. -/
theorem separated_of_distance {p q : List ℚ} (hp : GridWF axes p) (hq : GridWF axes q) (R1 R2 hmax : ℚ)
    (h1 : 0 ≤ R1) (h2 : 0 ≤ R2) (hh : ∀ a ∈ axes, a.dx ≤ hmax) (h0 : 0 ≤ hmax)
    (hdist : (R1 + R2 + hmax) ^ 2 ≤ cdist2 axes p q) {c c' : ℕ}
    (m1 : ballMask axes p R1 c = true) (m2 : ballMask axes q R2 c' = true) :
    c ≠ c' ∧ ¬ FaceAdj (shapeOf axes) (perOf axes) c c' ∧ ¬ FaceAdj (shapeOf axes) (perOf axes) c' c := by
  by_contra hcon
  have hadj : c = c' ∨ FaceAdj (shapeOf axes) (perOf axes) c c' ∨ FaceAdj (shapeOf axes) (perOf axes) c' c := by
    by_contra hn
    push Not at hn
    exact hcon ⟨hn.1, hn.2.1, hn.2.2⟩
  obtain ⟨e, j, hes, hej⟩ := step_offsets axes hp hmax hh hadj
  obtain ⟨_, hD1⟩ := (ballMask_iff axes p R1 c).mp m1
  obtain ⟨_, hD2⟩ := (ballMask_iff axes q R2 c').mp m2
  rw [D_eq_sum axes hp c] at hD1
  rw [D_eq_sum axes hq c'] at hD2
  -- per axis: the centre difference is bounded by the combination of the three offsets
  have hax : ∀ a ∈ Finset.range axes.length,
      cdiff axes p q a ^ 2 ≤ (U axes q c' a + (-(U axes p c a)) + (-(e a))) ^ 2 := by
    intro a ha
    have ha' := Finset.mem_range.mp ha
    obtain ⟨hcen, hj0⟩ := hej a ha'
    have hL := length_pos _ (axis_wf axes p hp ha')
    have hz : U axes q c' a + (-(U axes p c a)) + (-(e a)) =
        (p.getD a 0 - q.getD a 0) + ((j a + wrapCount axes p c a - wrapCount axes q c' a : ℤ) : ℚ) * (axes.getD a default).length := by
      rw [U_eq_unwrapped, U_eq_unwrapped]
      have : (axes.getD a default).centre (coordOf (shapeOf axes) c' a) =
          (axes.getD a default).centre (coordOf (shapeOf axes) c a) + e a + (j a : ℚ) * (axes.getD a default).length := by
        linarith
      rw [this]; push_cast; ring
    unfold cdiff
    by_cases hper : (axes.getD a default).periodic = true
    · rw [if_pos hper]
      exact wrapDiff_min _ _ _ hL _ hz
    · rw [if_neg hper]
      have hper' : (axes.getD a default).periodic = false := by simpa using hper
      have hj := hj0 hper'
      have w1 : wrapCount axes p c a = 0 := by unfold wrapCount; simp only; rw [hper']; simp
      have w2 : wrapCount axes q c' a = 0 := by unfold wrapCount; simp only; rw [hper']; simp
      rw [hz, hj, w1, w2]; simp
  have hle : cdist2 axes p q ≤ ∑ a ∈ Finset.range axes.length, (U axes q c' a + (-(U axes p c a)) + (-(e a))) ^ 2 :=
    Finset.sum_le_sum hax
  have hlt := minkowski3 (Finset.range axes.length) (fun a => U axes q c' a) (fun a => -(U axes p c a)) (fun a => -(e a))
    R2 R1 hmax h2 h1 h0 (by simpa [pow_two] using hD2) (by
      have : ∑ a ∈ Finset.range axes.length, (-(U axes p c a)) ^ 2 = ∑ a ∈ Finset.range axes.length, U axes p c a ^ 2 :=
        Finset.sum_congr rfl fun a _ => by ring
      rw [this]; simpa [pow_two] using hD1.le) (by
      have : ∑ a ∈ Finset.range axes.length, (-(e a)) ^ 2 = ∑ a ∈ Finset.range axes.length, e a ^ 2 :=
        Finset.sum_congr rfl fun a _ => by ring
      rw [this]; exact hes)
  have : (R1 + R2 + hmax) ^ 2 < (R2 + R1 + hmax) ^ 2 := lt_of_le_of_lt (le_trans hdist hle) hlt
  nlinarith

/-- emulsions: pairwise distant centres ⇒ `Separated` -/
theorem separated_of_distances (balls : List (List ℚ × ℚ)) (hwf : ∀ b ∈ balls, GridWF axes b.1)
    (hR : ∀ b ∈ balls, 0 ≤ b.2) (hmax : ℚ) (hh : ∀ a ∈ axes, a.dx ≤ hmax) (h0 : 0 ≤ hmax)
    (hdist : ∀ b1 ∈ balls, ∀ b2 ∈ balls, b1 ≠ b2 → (b1.2 + b2.2 + hmax) ^ 2 ≤ cdist2 axes b1.1 b2.1) :
    Separated axes balls := by
  intro b1 hb1 b2 hb2 hne c c' m1 m2
  exact separated_of_distance axes (hwf b1 hb1) (hwf b2 hb2) b1.2 b2.2 hmax (hR b1 hb1) (hR b2 hb2) hh h0
    (hdist b1 hb1 b2 hb2 hne) m1 m2

end DV.C01

namespace DV.C01
open Finset BigOperators DV.Merge DV.MergeInv DV.Label DV.LabelInv DV.GridGeom DV.Render DV.BallConn DV.C02

variable (axes : List Axis)

/-- **C01 in the model, from physical hypotheses only.**  Any number of droplets on any well-formed grid
(any dimension ≥ 1, anisotropic spacing, any periodicity mask), such that
* the centres of any two of them are at least `Rᵢ + Rⱼ + h` apart under the grid's periodic metric, `h` being a
  bound on the cell size (WELL-SEPARATED), and
* each droplet is resolved (on periodic axes `2(R + dx) ≤ L`, on the other axes the sphere lies inside the box)
  and covers at least one cell centre (RESOLVABLE):
then for every droplet the pipeline rendering → labelling → periodic merging forms one cluster that consists
of exactly the cells whose centres the droplet covers; its volume is the number of those cells (× cell
volume), and its position in grid coordinates lies within HALF A CELL of the droplet's centre along every
axis (up to whole periods along periodic axes only). -/
theorem C01_emulsion_model (balls : List (List ℚ × ℚ)) (hwf : ∀ b ∈ balls, GridWF axes b.1) (hd : 0 < axes.length)
    (hmax : ℚ) (hh : ∀ a ∈ axes, a.dx ≤ hmax) (h0 : 0 ≤ hmax)
    (hdist : ∀ b1 ∈ balls, ∀ b2 ∈ balls, b1 ≠ b2 → (b1.2 + b2.2 + hmax) ^ 2 ≤ cdist2 axes b1.1 b2.1)
    (hres : ∀ b ∈ balls, FullyResolved axes b.1 b.2)
    (b : List ℚ × ℚ) (hb : b ∈ balls) (c0 : ℕ) (hc0 : ballMask axes b.1 b.2 c0 = true) :
    let mask := emulsionMask axes balls
    let L := labelFn (shapeOf axes) mask
    let cells := List.range (numCells (shapeOf axes))
    let st := mergeLoop (fun a => (shapeOf axes).getD a 1) L (initSt (coordOf (shapeOf axes)) L cells)
      (edgesOf (shapeOf axes) (perOf axes))
    (∀ c, st.lab c = st.lab c0 ↔ ballMask axes b.1 b.2 c = true) ∧
    st.vol (st.lab c0) = (((Finset.range (numCells (shapeOf axes))).filter fun c => ballMask axes b.1 b.2 c = true).card : ℚ) ∧
    ∃ m : ℕ → ℤ, (∀ a, a < axes.length → (axes.getD a default).periodic = false → m a = 0) ∧ ∀ a, a < axes.length →
      |(axes.getD a default).lo + (axes.getD a default).dx * st.pos (st.lab c0) a
        - (m a : ℚ) * (axes.getD a default).length - b.1.getD a 0| < (axes.getD a default).dx / 2 := by
  have hR : ∀ b ∈ balls, 0 ≤ b.2 := fun b hb => (hres b hb 0 hd).nonneg
  exact emulsion_droplet_located axes balls hwf (separated_of_distances axes balls hwf hR hmax hh h0 hdist) hd b hb
    (hres b hb) c0 hc0

end DV.C01

namespace DV.C01
open DV.Render DV.BallConn
/-- non-vacuity of the hypotheses of `C01_emulsion_model`: two droplets of radius 3/2 at (3,3) and (9,9) on a
12×12 fully periodic unit grid (cell size bound 1) -/
def axes12 : List Axis := [⟨0, 1, 12, true⟩, ⟨0, 1, 12, true⟩]

example : ((3/2 : ℚ) + 3/2 + 1) ^ 2 ≤ cdist2 axes12 [3, 3] [9, 9] := by decide +kernel

example : FullyResolved axes12 [3, 3] (3/2) := by
  intro k hk
  have : k = 0 ∨ k = 1 := by simp [axes12] at hk; omega
  rcases this with rfl | rfl <;>
  · refine ⟨by norm_num, ?_, ?_⟩
    · intro _; simp [axes12, Axis.length]; norm_num
    · intro hp; simp [axes12] at hp

example : ballMask axes12 [3, 3] (3/2) (3 * 12 + 3) = true := by decide +kernel

/-- the hypotheses do not confine centres to the box: the same droplet given by its periodic image three periods below / two periods above
the box (seeded change C01-j replaced the periodic distance by one that is valid only within 1.5 periods) -/
example : ((3/2 : ℚ) + 3/2 + 1) ^ 2 ≤ cdist2 axes12 [3 - 36, 3 + 24] [9, 9] := by decide +kernel

example : FullyResolved axes12 [3 - 36, 3 + 24] (3/2) := by
  intro k hk
  have : k = 0 ∨ k = 1 := by simp [axes12] at hk; omega
  rcases this with rfl | rfl <;>
  · refine ⟨by norm_num, ?_, ?_⟩
    · intro _; simp [axes12, Axis.length]; norm_num
    · intro hp; simp [axes12] at hp

example : ballMask axes12 [3 - 36, 3 + 24] (3/2) (3 * 12 + 3) = true := by decide +kernel
end DV.C01

/-! ### cylindrical grids (model of `_locate_droplets_in_mask_cylindrical`, `Model/Cyl.lean`) -/

namespace DV.C01
open Finset BigOperators DV.Merge DV.MergeInv DV.Label DV.LabelInv DV.GridGeom DV.Render DV.BallConn DV.WrapDiff DV.C02 DV.Cyl Relation

/-- a non-empty image that is connected through in-box face pairs gets exactly one label, 1 -/
theorem clustersOf_connected (shape : List ℕ) (mask : ℕ → Bool)
    (hmask : ∀ c, mask c = true → c < numCells shape)
    (hconn : ∀ c1 c2, mask c1 = true → mask c2 = true → MaskConn mask (inboxEdges shape) c1 c2)
    (hne : ∃ c, mask c = true) :
    clustersOf (labelExec shape mask) = [⟨1, (List.range (numCells shape)).filter mask⟩] := by
  obtain ⟨hpos, heq, _, hgap⟩ := labelExec_isLabelling shape mask hmask
  set labels := labelExec shape mask with hlabels
  have hL : ∀ c, labelFn shape mask c = labels.getD c 0 := fun c => rfl
  obtain ⟨c0, hc0⟩ := hne
  have h1 : ∀ c, mask c = true → labels.getD c 0 = 1 := by
    intro c hc
    obtain ⟨c', hc'⟩ := hgap c hc 1 le_rfl (by have := (hpos c).mpr hc; omega)
    have m' : mask c' = true := (hpos c').mp (by omega)
    rw [← hL, ← hc']
    exact (heq c c' hc m').mpr (hconn c c' hc m')
  have h0 : ∀ c, mask c ≠ true → labels.getD c 0 = 0 := by
    intro c hc
    have := (hpos c).not.mpr hc
    rw [hL] at this; omega
  have hmax : labels.foldl max 0 = 1 := by
    apply le_antisymm
    · apply foldl_max_le _ _ _ (by omega)
      intro x hx
      obtain ⟨i, hi, rfl⟩ := List.getElem_of_mem hx
      have : labels.getD i 0 = labels[i] := by simp [List.getD_eq_getElem?_getD, hi]
      by_cases hm : mask i = true
      · rw [← this, h1 i hm]
      · rw [← this, h0 i hm]; omega
    · rw [← h1 c0 hc0]; exact getD_le_foldl_max labels c0
  unfold clustersOf
  simp only [hmax, List.range_one, List.map_cons, List.map_nil, zero_add]
  congr 2
  rw [hlabels, labelExec_length, ← hlabels]
  apply List.filter_congr
  intro c _
  by_cases hm : mask c = true
  · show (labels.getD c 0 == 1) = mask c
    rw [h1 c hm, hm]; rfl
  · have : mask c = false := by simpa using hm
    show (labels.getD c 0 == 1) = mask c
    rw [h0 c hm, this]; rfl


theorem gridConn_nonperiodic (shape : List ℕ) (periodic : List Bool) (mask : ℕ → Bool) (hpos : ∀ n ∈ shape, 0 < n)
    (hper : ∀ ax, periodic.getD ax false = false) {a b : ℕ} (h : GridConn shape periodic mask a b) :
    MaskConn mask (inboxEdges shape) a b := by
  refine EqvGen.mono ?_ a b h
  rintro x y ⟨mx, my, hxy⟩
  refine ⟨mx, my, ?_⟩
  rcases hxy with rfl | ⟨ax, h1 | h2⟩
  · exact Or.inl rfl
  · exact Or.inr ⟨⟨ax, x, y⟩, (inboxEdges_iff shape hpos ax x y).mpr h1, rfl, rfl⟩
  · have := h2.2.2.2.1
    rw [hper ax] at this
    exact absurd this (by simp)

/-! ### cylindrical grids: an on-axis droplet (non-periodic z) -/

/-- the (r, z) half-plane of a cylindrical grid as a 2-axis grid: r starts at 0 -/
def cylAxes (dr zlo dz : ℚ) (nr nz : ℕ) : List Axis := [⟨0, dr, nr, false⟩, ⟨zlo, dz, nz, false⟩]

section cyl
variable (dr zlo dz : ℚ) (nr nz : ℕ) (z0 R : ℚ)

/-- sharp image of a droplet centred ON the symmetry axis at height `z0` -/
def cylMask : ℕ → Bool := ballMask (cylAxes dr zlo dz nr nz) [0, z0] R

theorem cyl_shape : shapeOf (cylAxes dr zlo dz nr nz) = [nr, nz] := rfl
theorem cyl_per : perOf (cylAxes dr zlo dz nr nz) = [false, false] := rfl
theorem cyl_numCells : numCells [nr, nz] = nr * nz := by simp [numCells]
theorem cyl_unflat (c : ℕ) : unflat [nr, nz] c = [c / nz % nr, c % nz] := by simp [unflat]

theorem cyl_wf (hdr : 0 < dr) (hdz : 0 < dz) (hnr : 0 < nr) (hnz : 0 < nz) : GridWF (cylAxes dr zlo dz nr nz) [0, z0] := by
  refine ⟨?_, rfl⟩
  intro a ha
  simp only [cylAxes, List.mem_cons, List.not_mem_nil, or_false] at ha
  rcases ha with rfl | rfl
  · exact ⟨hdr, hnr⟩
  · exact ⟨hdz, hnz⟩

theorem cylMask_iff (c : ℕ) : cylMask dr zlo dz nr nz z0 R c = true ↔
    c < nr * nz ∧ (((c / nz % nr : ℕ) : ℚ) + 1 / 2) * dr * ((((c / nz % nr : ℕ) : ℚ) + 1 / 2) * dr)
      + (zlo + (((c % nz : ℕ) : ℚ) + 1 / 2) * dz - z0) * (zlo + (((c % nz : ℕ) : ℚ) + 1 / 2) * dz - z0) < R * R := by
  unfold cylMask
  rw [ballMask_iff, cyl_shape, cyl_numCells]
  unfold D
  rw [cyl_shape, cyl_unflat]
  simp [cylAxes, dist2r, Axis.diff, Axis.centre]


theorem foldl_add_nat (xs : List ℕ) (a : ℕ) : xs.foldl (· + ·) a = a + xs.sum := by
  induction xs generalizing a with
  | nil => simp
  | cons x xs ih => simp only [List.foldl_cons, List.sum_cons, ih]; omega

theorem list_filter_sum (n : ℕ) (p : ℕ → Bool) (f : ℕ → ℚ) :
    (((List.range n).filter p).map f).sum = ∑ c ∈ (Finset.range n).filter (fun c => p c = true), f c := by
  rw [← List.sum_toFinset f ((List.nodup_range).filter _), List.toFinset_filter, List.toFinset_range]

theorem list_filter_card (n : ℕ) (p : ℕ → Bool) :
    ((List.range n).filter p).length = ((Finset.range n).filter (fun c => p c = true)).card := by
  rw [← List.toFinset_card_of_nodup ((List.nodup_range).filter _), List.toFinset_filter, List.toFinset_range]

/-- **C01 on a cylindrical grid (non-periodic z), for the model of `_locate_droplets_in_mask_cylindrical`.**
A droplet centred on the symmetry axis that lies inside the box along z and covers at least one cell centre
yields exactly ONE candidate; its volume weight is the sum of the weights `2 i_r + 1` (cell volume / π dr² dz)
of exactly the covered cells, and its height is within HALF A CELL of the droplet's. -/
theorem C01_cylinder_model (hdr : 0 < dr) (hdz : 0 < dz) (hnr : 0 < nr) (hnz : 0 < nz) (hR : 0 ≤ R)
    (hbox : zlo + R ≤ z0 ∧ z0 + R ≤ zlo + dz * nz) (hne : ∃ c, cylMask dr zlo dz nr nz z0 R c = true) :
    ∃ zp : ℚ, Cyl.candidates nr nz false (cylMask dr zlo dz nr nz z0 R) =
        some [(zp, (((List.range (nr * nz)).filter (cylMask dr zlo dz nr nz z0 R)).map fun c => 2 * (c / nz) + 1).sum)] ∧
      |zlo + zp * dz - z0| < dz / 2 := by
  set axes := cylAxes dr zlo dz nr nz with haxes
  set mask := cylMask dr zlo dz nr nz z0 R with hmask
  have hwf : GridWF axes [0, z0] := cyl_wf dr zlo dz nr nz z0 hdr hdz hnr hnz
  have hpos : ∀ n ∈ [nr, nz], 0 < n := by
    intro n hn; simp only [List.mem_cons, List.not_mem_nil, or_false] at hn; rcases hn with rfl | rfl <;> assumption
  have hmlt : ∀ c, mask c = true → c < numCells [nr, nz] := by
    intro c hc; rw [cyl_numCells]; exact ((cylMask_iff dr zlo dz nr nz z0 R c).mp hc).1
  have hconn : ∀ c1 c2, mask c1 = true → mask c2 = true → MaskConn mask (inboxEdges [nr, nz]) c1 c2 := by
    intro c1 c2 m1 m2
    have := ball_connected axes [0, z0] hwf R m1 m2
    exact gridConn_nonperiodic [nr, nz] [false, false] mask hpos (by intro ax; rcases ax with _ | _ | ax <;> simp) this
  have hcl := clustersOf_connected [nr, nz] mask hmlt hconn hne
  rw [cyl_numCells] at hcl
  set cells := (List.range (nr * nz)).filter mask with hcells
  obtain ⟨c0, hc0⟩ := hne
  have hc0' := (cylMask_iff dr zlo dz nr nz z0 R c0).mp hc0
  have hmemcells : ∀ c, c ∈ cells ↔ c < nr * nz ∧ mask c = true := by
    intro c; simp [hcells]
  -- the cluster touches the axis
  have hon : Cluster.onAxis nz (⟨1, cells⟩ : Cluster) = true := by
    unfold Cluster.onAxis rIdx
    simp only [List.any_eq_true, beq_iff_eq]
    refine ⟨c0 % nz, ?_, Nat.div_eq_of_lt (Nat.mod_lt _ hnz)⟩
    rw [hmemcells]
    have hlt : c0 % nz < nr * nz := lt_of_lt_of_le (Nat.mod_lt _ hnz) (Nat.le_mul_of_pos_left _ hnr)
    refine ⟨hlt, (cylMask_iff dr zlo dz nr nz z0 R _).mpr ⟨hlt, ?_⟩⟩
    rw [Nat.div_eq_of_lt (Nat.mod_lt _ hnz), Nat.mod_mod, Nat.zero_mod]
    refine lt_of_le_of_lt ?_ hc0'.2
    have hi : (0 : ℚ) ≤ ((c0 / nz % nr : ℕ) : ℚ) := Nat.cast_nonneg _
    push_cast
    nlinarith [mul_pos hdr hdr, mul_nonneg (mul_nonneg hi hi) (mul_pos hdr hdr).le, mul_nonneg hi (mul_pos hdr hdr).le]
  have hspan : Cluster.spans nz (⟨1, cells⟩ : Cluster) nz = false := by
    unfold Cluster.spans zIdx
    rw [Bool.and_eq_false_iff]
    right
    rw [List.any_eq_false]
    intro c _
    simpa using Nat.mod_lt c hnz
  unfold Cyl.candidates
  simp only [Bool.false_eq_true, if_false]
  unfold Cyl.single
  simp only [hcl, List.filter_cons, hon, if_true, List.filter_nil, List.any_cons, hspan, List.any_nil, Bool.or_false,
    Bool.false_eq_true, if_false, List.map_cons, List.map_nil]
  refine ⟨Cluster.zpos nz ⟨1, cells⟩, ?_, ?_⟩
  · unfold Cluster.weight rIdx
    rw [foldl_add_nat]; simp
  · -- half-cell bound
    unfold Cluster.zpos zIdx
    rw [foldl_add_rat, zero_add]
    simp only
    have hSne : ((Finset.range (numCells (shapeOf axes))).filter fun c => ballMask axes [0, z0] R c = true).Nonempty :=
      ⟨c0, by simp only [Finset.mem_filter, Finset.mem_range]; exact ⟨hmlt c0 hc0, hc0⟩⟩
    have hres : AxisResolved (axes.getD 1 default) (([0, z0] : List ℚ).getD 1 0) R := by
      refine ⟨hR, fun hp => by simp [haxes, cylAxes] at hp, fun _ => ?_⟩
      simp only [haxes, cylAxes, List.getD_cons_succ, List.getD_cons_zero, Axis.length]
      exact hbox
    have hmean := ball_offset_mean axes [0, z0] hwf R (k := 1) (by simp [haxes, cylAxes]) hres hSne
    have hN : numCells (shapeOf axes) = nr * nz := cyl_numCells nr nz
    rw [hN] at hmean
    have hU : ∀ c, U axes [0, z0] c 1 = zlo + (((c % nz : ℕ) : ℚ) + 1 / 2) * dz - z0 := by
      intro c
      rw [U_eq]
      show Axis.diff _ _ (coordOf [nr, nz] c 1) = _
      unfold coordOf
      rw [cyl_unflat]
      simp [haxes, cylAxes, Axis.diff, Axis.centre]
    simp only [hU] at hmean
    change |∑ c ∈ (Finset.range (nr * nz)).filter (fun c => mask c = true), _| <
      (((Finset.range (nr * nz)).filter (fun c => mask c = true)).card : ℚ) * _ at hmean
    rw [hcells, list_filter_sum, list_filter_card]
    set S := (Finset.range (nr * nz)).filter (fun c => mask c = true) with hS
    have hcard : (0 : ℚ) < S.card := by
      have : S.Nonempty := ⟨c0, by simp only [hS, Finset.mem_filter, Finset.mem_range]; exact ⟨hc0'.1, hc0⟩⟩
      exact_mod_cast this.card_pos
    have hsum : ∑ c ∈ S, (zlo + (((c % nz : ℕ) : ℚ) + 1 / 2) * dz - z0)
        = (S.card : ℚ) * (zlo + dz / 2 - z0) + dz * ∑ c ∈ S, ((c % nz : ℕ) : ℚ) := by
      rw [Finset.mul_sum, Finset.card_eq_sum_ones]
      push_cast
      rw [Finset.sum_mul, ← Finset.sum_add_distrib]
      apply Finset.sum_congr rfl; intro c _; ring
    rw [hsum] at hmean
    have key : zlo + ((∑ c ∈ S, ((c % nz : ℕ) : ℚ)) / S.card + 1 / 2) * dz - z0
        = ((S.card : ℚ) * (zlo + dz / 2 - z0) + dz * ∑ c ∈ S, ((c % nz : ℕ) : ℚ)) / S.card := by
      field_simp; ring
    have hdx : (axes.getD 1 default).dx = dz := rfl
    rw [hdx] at hmean
    rw [key, abs_div, abs_of_pos hcard, div_lt_iff₀ hcard]
    linarith

end cyl

/-- non-vacuity: 4 × 8 cells of size 1, droplet of radius 2.2 on the axis at height 4.3: the hypotheses hold and the
executed model returns one candidate at 59/14 ≈ 4.21 cells (within half a cell of 4.3) of weight 13 -/
example : cylMask 1 0 1 4 8 (43/10) (11/5) 4 = true := by decide +kernel
example : Cyl.candidates 4 8 false (cylMask 1 0 1 4 8 (43/10) (11/5)) = some [(59/14, 13)] := by decide +kernel
end DV.C01

/-! ### cylindrical grids with periodic z: clusters of several droplets, the padded analysis -/

namespace DV.C01
open Finset BigOperators DV.Merge DV.MergeInv DV.Label DV.LabelInv DV.GridGeom DV.Render DV.BallConn DV.WrapDiff DV.C02 DV.Cyl Relation

theorem maskConn_gridConn (shape : List ℕ) (periodic : List Bool) (mask : ℕ → Bool) (hpos : ∀ n ∈ shape, 0 < n)
    {a b : ℕ} (h : MaskConn mask (inboxEdges shape) a b) : GridConn shape periodic mask a b := by
  refine EqvGen.mono ?_ a b h
  rintro x y ⟨mx, my, hxy⟩
  refine ⟨mx, my, ?_⟩
  rcases hxy with rfl | ⟨⟨ax, l, h⟩, he, rfl, rfl⟩
  · exact Or.inl rfl
  · exact Or.inr ⟨ax, Or.inl ((inboxEdges_iff shape hpos ax _ _).mp he)⟩

/-- **The clusters of a labelled image are its label classes**: every cluster is the set of all cells carrying the
label of some image cell, and every image cell's label class is a cluster. -/
theorem clustersOf_classes (shape : List ℕ) (mask : ℕ → Bool) (hmask : ∀ c, mask c = true → c < numCells shape) :
    let L := labelFn shape mask
    (∀ cl ∈ clustersOf (labelExec shape mask), ∃ c0, mask c0 = true ∧
      cl.cells = (List.range (numCells shape)).filter fun c => L c == L c0) ∧
    (∀ c0, mask c0 = true → ∃ cl ∈ clustersOf (labelExec shape mask),
      cl.cells = (List.range (numCells shape)).filter fun c => L c == L c0) := by
  intro L
  obtain ⟨hpos, _, _, hgap⟩ := labelExec_isLabelling shape mask hmask
  set labels := labelExec shape mask with hlabels
  have hL : ∀ c, L c = labels.getD c 0 := fun c => rfl
  have hlen : labels.length = numCells shape := labelExec_length shape mask
  set K := labels.foldl max 0 with hK
  -- the maximum is attained at an image cell (or is 0)
  have hKatt : K = 0 ∨ ∃ c, mask c = true ∧ L c = K := by
    rcases foldl_max_mem labels 0 with h | h
    · left; exact h
    · obtain ⟨i, hi, hie⟩ := List.getElem_of_mem h
      by_cases h0 : K = 0
      · left; exact h0
      · right
        have : L i = K := by rw [hL, List.getD_eq_getElem?_getD, List.getElem?_eq_getElem hi]; simpa using hie
        have hp : 0 < L i := by omega
        exact ⟨i, (hpos i).mp hp, this⟩
  constructor
  · intro cl hcl
    unfold clustersOf at hcl
    simp only [List.mem_map, List.mem_range] at hcl
    obtain ⟨j, hj, rfl⟩ := hcl
    rcases hKatt with h0 | ⟨cK, mK, hcK⟩
    · omega
    · have hjK : j + 1 ≤ L cK := by omega
      obtain ⟨c', hc'⟩ := hgap cK mK (j + 1) (by omega) hjK
      have hc'' : L c' = j + 1 := hc'
      have hp' : 0 < L c' := by omega
      refine ⟨c', (hpos c').mp hp', ?_⟩
      simp only [hlen]
      apply List.filter_congr
      intro c _
      rw [hc'', hL]
  · intro c0 m0
    have hp : 0 < L c0 := (hpos c0).mpr m0
    have hle : L c0 ≤ K := by rw [hL]; exact getD_le_foldl_max labels c0
    refine ⟨⟨L c0 - 1 + 1, (List.range labels.length).filter fun c => labels.getD c 0 == L c0 - 1 + 1⟩, ?_, ?_⟩
    · unfold clustersOf
      simp only [List.mem_map, List.mem_range]
      exact ⟨L c0 - 1, by omega, rfl⟩
    · simp only [hlen]
      apply List.filter_congr
      intro c _
      rw [hL c, show L c0 - 1 + 1 = L c0 by omega]


/-- **Several droplets on a non-periodic (r, z) grid: the clusters found by the cylindrical routine are the droplets.**
If the rendered droplets are separated on the grid, every cluster of the labelled image consists of exactly the cells
covered by one droplet, and every droplet that covers a cell is a cluster. -/
theorem cyl_clusters_are_balls (dr zl dz : ℚ) (nr nzI : ℕ) (hdr : 0 < dr) (hdz : 0 < dz) (hnr : 0 < nr) (hnz : 0 < nzI)
    (balls : List (List ℚ × ℚ)) (hlen : ∀ b ∈ balls, b.1.length = 2)
    (hsep : Separated (cylAxes dr zl dz nr nzI) balls) :
    let axes := cylAxes dr zl dz nr nzI
    let mask := emulsionMask axes balls
    (∀ cl ∈ clustersOf (labelExec [nr, nzI] mask), ∃ b ∈ balls, (∃ c, ballMask axes b.1 b.2 c = true) ∧
      cl.cells = (List.range (nr * nzI)).filter (ballMask axes b.1 b.2)) ∧
    (∀ b ∈ balls, (∃ c, ballMask axes b.1 b.2 c = true) → ∃ cl ∈ clustersOf (labelExec [nr, nzI] mask),
      cl.cells = (List.range (nr * nzI)).filter (ballMask axes b.1 b.2)) := by
  intro axes mask
  have hwf : ∀ b ∈ balls, GridWF axes b.1 := by
    intro b hb
    refine ⟨?_, hlen b hb⟩
    intro a ha
    simp only [axes, cylAxes, List.mem_cons, List.not_mem_nil, or_false] at ha
    rcases ha with rfl | rfl
    · exact ⟨hdr, hnr⟩
    · exact ⟨hdz, hnz⟩
  have hpos : ∀ n ∈ [nr, nzI], 0 < n := by
    intro n hn; simp only [List.mem_cons, List.not_mem_nil, or_false] at hn; rcases hn with rfl | rfl <;> assumption
  have hper : ∀ ax, ([false, false] : List Bool).getD ax false = false := by
    intro ax; rcases ax with _ | _ | ax <;> simp
  have hmlt : ∀ c, mask c = true → c < numCells [nr, nzI] := by
    intro c hc
    obtain ⟨b, _, hb⟩ := (emulsionMask_iff axes balls c).mp hc
    exact ((ballMask_iff axes b.1 b.2 c).mp hb).1
  obtain ⟨hposL, heq, _, _⟩ := labelExec_isLabelling [nr, nzI] mask hmlt
  obtain ⟨hcl1, hcl2⟩ := clustersOf_classes [nr, nzI] mask hmlt
  rw [cyl_numCells] at hcl1 hcl2
  -- the label class of a cell of droplet `b` is `b`
  have hclass : ∀ b ∈ balls, ∀ c0, ballMask axes b.1 b.2 c0 = true → ∀ c,
      (labelFn [nr, nzI] mask c == labelFn [nr, nzI] mask c0) = ballMask axes b.1 b.2 c := by
    intro b hb c0 hc0 c
    have m0 : mask c0 = true := (emulsionMask_iff axes balls c0).mpr ⟨b, hb, hc0⟩
    rw [Bool.eq_iff_iff, beq_iff_eq]
    constructor
    · intro hl
      have hp : 0 < labelFn [nr, nzI] mask c := by rw [hl]; exact (hposL c0).mpr m0
      have mc : mask c = true := (hposL c).mp hp
      have hconn := maskConn_gridConn [nr, nzI] [false, false] mask hpos ((heq c c0 mc m0).mp hl)
      obtain ⟨b', hb', h1, h2⟩ := (emulsion_components axes balls hwf hsep mc m0).mp hconn
      by_cases hbb : b' = b
      · subst hbb; exact h1
      · exact absurd rfl (hsep b' hb' b hb hbb c0 c0 h2 hc0).1
    · intro hc
      have mc : mask c = true := (emulsionMask_iff axes balls c).mpr ⟨b, hb, hc⟩
      have hconn := (emulsion_components axes balls hwf hsep mc m0).mpr ⟨b, hb, hc, hc0⟩
      exact (heq c c0 mc m0).mpr (gridConn_nonperiodic [nr, nzI] [false, false] mask hpos hper hconn)
  constructor
  · intro cl hcl
    obtain ⟨c0, m0, hcells⟩ := hcl1 cl hcl
    obtain ⟨b, hb, hc0⟩ := (emulsionMask_iff axes balls c0).mp m0
    refine ⟨b, hb, ⟨c0, hc0⟩, ?_⟩
    rw [hcells]
    exact List.filter_congr (fun c _ => hclass b hb c0 hc0 c)
  · rintro b hb ⟨c0, hc0⟩
    have m0 : mask c0 = true := (emulsionMask_iff axes balls c0).mpr ⟨b, hb, hc0⟩
    obtain ⟨cl, hcl, hcells⟩ := hcl2 c0 m0
    refine ⟨cl, hcl, ?_⟩
    rw [hcells]
    exact List.filter_congr (fun c _ => hclass b hb c0 hc0 c)


theorem zsum_lt (nzp : ℕ) (b : ℚ) : ∀ cells : List ℕ, cells ≠ [] → (∀ c ∈ cells, (zIdx nzp c : ℚ) + 1 / 2 < b) →
    (cells.map fun c => (zIdx nzp c : ℚ)).sum < (cells.length : ℚ) * (b - 1 / 2)
  | [], h, _ => absurd rfl h
  | [c], _, h => by
    have := h c (by simp)
    simp; linarith
  | c :: c' :: cs, _, h => by
    have ih := zsum_lt nzp b (c' :: cs) (by simp) (fun x hx => h x (List.mem_cons_of_mem _ hx))
    have := h c (by simp)
    simp only [List.map_cons, List.sum_cons, List.length_cons] at ih ⊢
    push_cast at ih ⊢
    linarith

theorem zsum_gt (nzp : ℕ) (b : ℚ) : ∀ cells : List ℕ, cells ≠ [] → (∀ c ∈ cells, b < (zIdx nzp c : ℚ) + 1 / 2) →
    (cells.length : ℚ) * (b - 1 / 2) < (cells.map fun c => (zIdx nzp c : ℚ)).sum
  | [], h, _ => absurd rfl h
  | [c], _, h => by
    have := h c (by simp)
    simp; linarith
  | c :: c' :: cs, _, h => by
    have ih := zsum_gt nzp b (c' :: cs) (by simp) (fun x hx => h x (List.mem_cons_of_mem _ hx))
    have := h c (by simp)
    simp only [List.map_cons, List.sum_cons, List.length_cons] at ih ⊢
    push_cast at ih ⊢
    linarith

/-- the height of a non-empty cluster is a mean: it lies strictly between strict bounds on its cells' heights -/
theorem zpos_lt (nzp : ℕ) (cl : Cluster) (hne : cl.cells ≠ []) (b : ℚ)
    (h : ∀ c ∈ cl.cells, (zIdx nzp c : ℚ) + 1 / 2 < b) : cl.zpos nzp < b := by
  unfold Cluster.zpos
  rw [foldl_add_rat, zero_add]
  have hpos : (0 : ℚ) < cl.cells.length := by exact_mod_cast List.length_pos_iff.mpr hne
  have := zsum_lt nzp b cl.cells hne h
  have : (cl.cells.map fun c => (zIdx nzp c : ℚ)).sum / (cl.cells.length : ℚ) < b - 1 / 2 := by
    rw [div_lt_iff₀ hpos]; linarith
  linarith

theorem lt_zpos (nzp : ℕ) (cl : Cluster) (hne : cl.cells ≠ []) (b : ℚ)
    (h : ∀ c ∈ cl.cells, b < (zIdx nzp c : ℚ) + 1 / 2) : b < cl.zpos nzp := by
  unfold Cluster.zpos
  rw [foldl_add_rat, zero_add]
  have hpos : (0 : ℚ) < cl.cells.length := by exact_mod_cast List.length_pos_iff.mpr hne
  have := zsum_gt nzp b cl.cells hne h
  have : b - 1 / 2 < (cl.cells.map fun c => (zIdx nzp c : ℚ)).sum / (cl.cells.length : ℚ) := by
    rw [lt_div_iff₀ hpos]; linarith
  linarith

section cylball
variable (dr zl dz : ℚ) (nr nzI : ℕ) (z R : ℚ)

/-- the cells covered by an on-axis droplet, as a cluster of the cylindrical routine -/
def cylCov : List ℕ := (List.range (nr * nzI)).filter (cylMask dr zl dz nr nzI z R)

theorem mem_cylCov (c : ℕ) : c ∈ cylCov dr zl dz nr nzI z R ↔ cylMask dr zl dz nr nzI z R c = true := by
  unfold cylCov
  simp only [List.mem_filter, List.mem_range, and_iff_right_iff_imp]
  intro h; exact ((cylMask_iff dr zl dz nr nzI z R c).mp h).1

/-- a covered cell lies within `R` of the droplet's height -/
theorem cylCov_z (hR : 0 ≤ R) {c : ℕ} (hc : cylMask dr zl dz nr nzI z R c = true) :
    |zl + (((c % nzI : ℕ) : ℚ) + 1 / 2) * dz - z| < R := by
  have h := ((cylMask_iff dr zl dz nr nzI z R c).mp hc).2
  set u := zl + (((c % nzI : ℕ) : ℚ) + 1 / 2) * dz - z
  set v := (((c / nzI % nr : ℕ) : ℚ) + 1 / 2) * dr
  have : u * u < R * R := by nlinarith [mul_self_nonneg v]
  exact abs_lt_of_sq_lt_sq' (by nlinarith) hR |> fun ⟨a, b⟩ => abs_lt.mpr ⟨a, b⟩

/-- a droplet that covers a cell covers a cell on the axis -/
theorem cylCov_onAxis (hdr : 0 < dr) (hnr : 0 < nr) (hnz : 0 < nzI) (lbl : ℕ)
    (hne : ∃ c, cylMask dr zl dz nr nzI z R c = true) :
    Cluster.onAxis nzI (⟨lbl, cylCov dr zl dz nr nzI z R⟩ : Cluster) = true := by
  obtain ⟨c0, hc0⟩ := hne
  have hc0' := (cylMask_iff dr zl dz nr nzI z R c0).mp hc0
  unfold Cluster.onAxis rIdx
  simp only [List.any_eq_true, beq_iff_eq]
  refine ⟨c0 % nzI, ?_, Nat.div_eq_of_lt (Nat.mod_lt _ hnz)⟩
  rw [mem_cylCov]
  have hlt : c0 % nzI < nr * nzI := lt_of_lt_of_le (Nat.mod_lt _ hnz) (Nat.le_mul_of_pos_left _ hnr)
  refine (cylMask_iff dr zl dz nr nzI z R _).mpr ⟨hlt, ?_⟩
  rw [Nat.div_eq_of_lt (Nat.mod_lt _ hnz), Nat.mod_mod, Nat.zero_mod]
  refine lt_of_le_of_lt ?_ hc0'.2
  have hi : (0 : ℚ) ≤ ((c0 / nzI % nr : ℕ) : ℚ) := Nat.cast_nonneg _
  push_cast
  nlinarith [mul_pos hdr hdr, mul_nonneg (mul_nonneg hi hi) (mul_pos hdr hdr).le, mul_nonneg hi (mul_pos hdr hdr).le]

theorem cylCov_weight (lbl : ℕ) : Cluster.weight nzI (⟨lbl, cylCov dr zl dz nr nzI z R⟩ : Cluster)
    = ((cylCov dr zl dz nr nzI z R).map fun c => 2 * (c / nzI) + 1).sum := by
  unfold Cluster.weight rIdx
  rw [foldl_add_nat]; simp

/-- **half-cell bound for the height of a droplet that lies inside the image along z** -/
theorem cylCov_zpos (hdr : 0 < dr) (hdz : 0 < dz) (hnr : 0 < nr) (hnz : 0 < nzI) (hR : 0 ≤ R) (lbl : ℕ)
    (hbox : zl + R ≤ z ∧ z + R ≤ zl + dz * nzI) (hne : ∃ c, cylMask dr zl dz nr nzI z R c = true) :
    |zl + Cluster.zpos nzI (⟨lbl, cylCov dr zl dz nr nzI z R⟩ : Cluster) * dz - z| < dz / 2 := by
  set axes := cylAxes dr zl dz nr nzI with haxes
  set mask := cylMask dr zl dz nr nzI z R with hmask
  have hwf : GridWF axes [0, z] := cyl_wf dr zl dz nr nzI z hdr hdz hnr hnz
  obtain ⟨c0, hc0⟩ := hne
  have hc0' := (cylMask_iff dr zl dz nr nzI z R c0).mp hc0
  unfold Cluster.zpos zIdx
  rw [foldl_add_rat, zero_add]
  simp only
  have hSne : ((Finset.range (numCells (shapeOf axes))).filter fun c => ballMask axes [0, z] R c = true).Nonempty :=
    ⟨c0, by simp only [Finset.mem_filter, Finset.mem_range]; exact ⟨by rw [cyl_shape, cyl_numCells]; exact hc0'.1, hc0⟩⟩
  have hres : AxisResolved (axes.getD 1 default) (([0, z] : List ℚ).getD 1 0) R := by
    refine ⟨hR, fun hp => by simp [haxes, cylAxes] at hp, fun _ => ?_⟩
    simp only [haxes, cylAxes, List.getD_cons_succ, List.getD_cons_zero, Axis.length]
    exact hbox
  have hmean := ball_offset_mean axes [0, z] hwf R (k := 1) (by simp [haxes, cylAxes]) hres hSne
  have hN : numCells (shapeOf axes) = nr * nzI := cyl_numCells nr nzI
  rw [hN] at hmean
  have hU : ∀ c, U axes [0, z] c 1 = zl + (((c % nzI : ℕ) : ℚ) + 1 / 2) * dz - z := by
    intro c
    rw [U_eq]
    show Axis.diff _ _ (coordOf [nr, nzI] c 1) = _
    unfold coordOf
    rw [cyl_unflat]
    simp [haxes, cylAxes, Axis.diff, Axis.centre]
  simp only [hU] at hmean
  change |∑ c ∈ (Finset.range (nr * nzI)).filter (fun c => mask c = true), _| <
    (((Finset.range (nr * nzI)).filter (fun c => mask c = true)).card : ℚ) * _ at hmean
  unfold cylCov
  rw [list_filter_sum, list_filter_card]
  set S := (Finset.range (nr * nzI)).filter (fun c => mask c = true) with hS
  have hcard : (0 : ℚ) < S.card := by
    have : S.Nonempty := ⟨c0, by simp only [hS, Finset.mem_filter, Finset.mem_range]; exact ⟨hc0'.1, hc0⟩⟩
    exact_mod_cast this.card_pos
  have hsum : ∑ c ∈ S, (zl + (((c % nzI : ℕ) : ℚ) + 1 / 2) * dz - z)
      = (S.card : ℚ) * (zl + dz / 2 - z) + dz * ∑ c ∈ S, ((c % nzI : ℕ) : ℚ) := by
    rw [Finset.mul_sum, Finset.card_eq_sum_ones]
    push_cast
    rw [Finset.sum_mul, ← Finset.sum_add_distrib]
    apply Finset.sum_congr rfl; intro c _; ring
  rw [hsum] at hmean
  have key : zl + ((∑ c ∈ S, ((c % nzI : ℕ) : ℚ)) / S.card + 1 / 2) * dz - z
      = ((S.card : ℚ) * (zl + dz / 2 - z) + dz * ∑ c ∈ S, ((c % nzI : ℕ) : ℚ)) / S.card := by
    field_simp; ring
  have hdx : (axes.getD 1 default).dx = dz := rfl
  rw [hdx] at hmean
  rw [key, abs_div, abs_of_pos hcard, div_lt_iff₀ hcard]
  linarith

end cylball

/-! ### cylindrical grids with periodic z: the padded analysis -/
section cylper
variable (dr zlo dz : ℚ) (nr nz : ℕ) (z0 R : ℚ)

/-- sharp PERIODIC image of a droplet centred on the axis at height `z0` (the rendering of C03 on a cylindrical grid
that is periodic in z) -/
def cylMaskP : ℕ → Bool := ballMask [⟨0, dr, nr, false⟩, ⟨zlo, dz, nz, true⟩] [0, z0] R

theorem cylMaskP_iff (c : ℕ) : cylMaskP dr zlo dz nr nz z0 R c = true ↔
    c < nr * nz ∧ (((c / nz % nr : ℕ) : ℚ) + 1 / 2) * dr * ((((c / nz % nr : ℕ) : ℚ) + 1 / 2) * dr)
      + wrapDiff (dz * nz) (zlo + (((c % nz : ℕ) : ℚ) + 1 / 2) * dz - z0)
        * wrapDiff (dz * nz) (zlo + (((c % nz : ℕ) : ℚ) + 1 / 2) * dz - z0) < R * R := by
  unfold cylMaskP
  rw [ballMask_iff]
  have hs : shapeOf [⟨0, dr, nr, false⟩, ⟨zlo, dz, nz, true⟩] = [nr, nz] := rfl
  rw [hs, cyl_numCells]
  unfold D
  rw [hs, cyl_unflat]
  simp [dist2r, Axis.diff, Axis.centre, Axis.length]

/-- the `k`-th periodic image of the droplet -/
def ballAt (k : ℤ) : List ℚ × ℚ := ([0, z0 + (k : ℚ) * (dz * nz)], R)

/-- the five periodic images of the droplet that can reach into the padded image -/
def balls5 : List (List ℚ × ℚ) :=
  [ballAt dz nz z0 R (-2), ballAt dz nz z0 R (-1), ballAt dz nz z0 R 0, ballAt dz nz z0 R 1, ballAt dz nz z0 R 2]

theorem mem_balls5 (b : List ℚ × ℚ) : b ∈ balls5 dz nz z0 R ↔ ∃ k : ℤ, -2 ≤ k ∧ k ≤ 2 ∧ b = ballAt dz nz z0 R k := by
  unfold balls5
  simp only [List.mem_cons, List.not_mem_nil, or_false]
  constructor
  · rintro (rfl | rfl | rfl | rfl | rfl)
    exacts [⟨-2, by omega, by omega, rfl⟩, ⟨-1, by omega, by omega, rfl⟩, ⟨0, by omega, by omega, rfl⟩,
      ⟨1, by omega, by omega, rfl⟩, ⟨2, by omega, by omega, rfl⟩]
  · rintro ⟨k, h1, h2, rfl⟩
    have : k = -2 ∨ k = -1 ∨ k = 0 ∨ k = 1 ∨ k = 2 := by omega
    rcases this with rfl | rfl | rfl | rfl | rfl <;> simp

/-- **The wrap-padded image of the periodic rendering is the NON-periodic rendering of the droplet's periodic images
on the three-fold grid.** -/
theorem padded_eq_emulsion (hdz : 0 < dz) (hnz : 0 < nz) (hz0 : zlo ≤ z0 ∧ z0 < zlo + dz * nz) (c : ℕ) :
    padded nz (cylMaskP dr zlo dz nr nz z0 R) c =
      emulsionMask (cylAxes dr (zlo - dz * nz) dz nr (3 * nz)) (balls5 dz nz z0 R) c := by
  have hL : 0 < dz * nz := mul_pos hdz (by exact_mod_cast hnz)
  rw [Bool.eq_iff_iff, emulsionMask_iff]
  unfold padded rIdx zIdx
  rw [cylMaskP_iff]
  set i := c / (3 * nz) with hi
  set J := c % (3 * nz) with hJ
  have hJlt : J < 3 * nz := Nat.mod_lt _ (by omega)
  have hjlt : J % nz < nz := Nat.mod_lt _ hnz
  have e1 : (i * nz + J % nz) / nz = i := by
    rw [Nat.add_comm, Nat.add_mul_div_right _ _ hnz, Nat.div_eq_of_lt hjlt, zero_add]
  have e2 : (i * nz + J % nz) % nz = J % nz := by
    rw [Nat.add_comm, Nat.add_mul_mod_self_right, Nat.mod_mod]
  rw [e1, e2]
  -- J = j + m nz
  have hJdecomp : (J : ℚ) = ((J % nz : ℕ) : ℚ) + ((J / nz : ℕ) : ℚ) * nz := by
    have := Nat.mod_add_div J nz
    have h2 : ((J % nz + nz * (J / nz) : ℕ) : ℚ) = J := by rw [this]
    push_cast at h2; linarith
  set j := J % nz with hj
  set m := J / nz with hm
  have hm2 : m ≤ 2 := by
    have : m < 3 := Nat.div_lt_of_lt_mul (by omega)
    omega
  clear_value m
  set w := zlo + ((j : ℚ) + 1 / 2) * dz - z0 with hw
  have hjq : (0 : ℚ) ≤ j := Nat.cast_nonneg _
  have hjq' : (j : ℚ) + 1 ≤ nz := by exact_mod_cast hjlt
  -- z of the padded cell relative to the droplet
  have hzJ : ∀ k : ℤ, (zlo - dz * nz) + ((J : ℚ) + 1 / 2) * dz - (z0 + (k : ℚ) * (dz * nz))
      = w + (((m : ℤ) - 1 - k : ℤ) : ℚ) * (dz * nz) := by
    intro k; rw [hJdecomp, hw]; push_cast; ring
  constructor
  · rintro ⟨hlt, hd⟩
    have hinr : i < nr := by
      by_contra hge
      have : nr * nz ≤ i * nz := Nat.mul_le_mul_right _ (by omega)
      omega
    obtain ⟨k0, hk0⟩ := wrapDiff_congr (dz * nz) w
    obtain ⟨r1, r2⟩ := wrapDiff_range (dz * nz) w hL
    -- |k0| ≤ 1 because |w| < L
    have hwl : -(dz * nz) < w ∧ w < dz * nz := by
      rw [hw]; constructor <;> nlinarith [hz0.1, hz0.2]
    have hk0b : -1 ≤ k0 ∧ k0 ≤ 1 := by
      rw [hk0] at r1 r2
      constructor
      · by_contra hc
        have : (k0 : ℚ) ≤ -2 := by exact_mod_cast (by omega : k0 ≤ -2)
        nlinarith
      · by_contra hc
        have : (2 : ℚ) ≤ k0 := by exact_mod_cast (by omega : 2 ≤ k0)
        nlinarith
    refine ⟨ballAt dz nz z0 R ((m : ℤ) - 1 + k0),
      (mem_balls5 dz nz z0 R _).mpr ⟨(m : ℤ) - 1 + k0, by omega, by omega, rfl⟩, ?_⟩
    show cylMask dr (zlo - dz * nz) dz nr (3 * nz) _ R c = true
    rw [cylMask_iff]
    refine ⟨?_, ?_⟩
    · calc c = 3 * nz * i + J := (Nat.div_add_mod c (3 * nz)).symm
        _ < 3 * nz * i + 3 * nz := by omega
        _ = 3 * nz * (i + 1) := by ring
        _ ≤ 3 * nz * nr := Nat.mul_le_mul_left _ (by omega)
        _ = nr * (3 * nz) := by ring
    · rw [← hi, ← hJ, Nat.mod_eq_of_lt hinr, hzJ]
      rw [Nat.mod_eq_of_lt hinr] at hd
      have : w + ((((m : ℤ) - 1 - ((m : ℤ) - 1 + k0) : ℤ)) : ℚ) * (dz * nz) = wrapDiff (dz * nz) w := by
        rw [hk0]; push_cast; ring
      rw [this]; exact hd
  · rintro ⟨b, hb, hc⟩
    obtain ⟨k, _, _, rfl⟩ := (mem_balls5 dz nz z0 R b).mp hb
    have hc' : cylMask dr (zlo - dz * nz) dz nr (3 * nz) (z0 + (k : ℚ) * (dz * nz)) R c = true := hc
    rw [cylMask_iff] at hc'
    obtain ⟨hclt, hd⟩ := hc'
    rw [← hi, ← hJ, hzJ] at hd
    have hinr : i < nr := by
      rw [hi]; exact Nat.div_lt_of_lt_mul (by rw [Nat.mul_comm]; exact hclt)
    rw [Nat.mod_eq_of_lt hinr] at hd ⊢
    refine ⟨?_, ?_⟩
    · calc i * nz + j < i * nz + nz := by omega
        _ = (i + 1) * nz := by ring
        _ ≤ nr * nz := Nat.mul_le_mul_right _ (by omega)
    · have hmin := wrapDiff_min (dz * nz) w _ hL ((m : ℤ) - 1 - k) rfl
      nlinarith [hmin]


theorem balls5_separated (hdr : 0 < dr) (hdz : 0 < dz) (hnr : 0 < nr) (hnz : 0 < nz) (hR : 0 ≤ R)
    (hmax : ℚ) (hdr' : dr ≤ hmax) (hdz' : dz ≤ hmax) (hres : 2 * R + hmax ≤ dz * nz) :
    Separated (cylAxes dr (zlo - dz * nz) dz nr (3 * nz)) (balls5 dz nz z0 R) := by
  set axes := cylAxes dr (zlo - dz * nz) dz nr (3 * nz) with haxes
  have h0 : 0 ≤ hmax := le_trans hdz.le hdz'
  apply separated_of_distances axes _ _ _ hmax _ h0
  · intro b1 hb1 b2 hb2 hne
    obtain ⟨k1, _, _, rfl⟩ := (mem_balls5 dz nz z0 R b1).mp hb1
    obtain ⟨k2, _, _, rfl⟩ := (mem_balls5 dz nz z0 R b2).mp hb2
    have hk : k1 ≠ k2 := fun h => hne (by rw [h])
    have hcd : cdist2 axes (ballAt dz nz z0 R k1).1 (ballAt dz nz z0 R k2).1 = (((k1 - k2 : ℤ) : ℚ) * (dz * nz)) ^ 2 := by
      unfold cdist2 cdiff
      simp [haxes, cylAxes, ballAt, Finset.sum_range_succ]
      ring
    rw [hcd]
    show (R + R + hmax) ^ 2 ≤ _
    have hk1 : (1 : ℚ) ≤ ((k1 - k2 : ℤ) : ℚ) ^ 2 := by
      have : (k1 - k2) ^ 2 ≥ 1 := by
        have : k1 - k2 ≠ 0 := sub_ne_zero.mpr hk
        nlinarith [sq_nonneg (k1 - k2), Int.one_le_abs this, sq_abs (k1 - k2), abs_nonneg (k1 - k2)]
      exact_mod_cast this
    have hL : 0 < dz * nz := mul_pos hdz (by exact_mod_cast hnz)
    rw [mul_pow]
    have h2 : (R + R + hmax) ^ 2 ≤ (dz * nz) ^ 2 := by nlinarith
    nlinarith [sq_nonneg (dz * (nz : ℚ))]
  · intro b hb
    obtain ⟨k, _, _, rfl⟩ := (mem_balls5 dz nz z0 R b).mp hb
    exact cyl_wf dr (zlo - dz * nz) dz nr (3 * nz) _ hdr hdz hnr (by omega)
  · intro b hb
    obtain ⟨k, _, _, rfl⟩ := (mem_balls5 dz nz z0 R b).mp hb
    exact hR
  · intro a ha
    simp only [haxes, cylAxes, List.mem_cons, List.not_mem_nil, or_false] at ha
    rcases ha with rfl | rfl
    · exact hdr'
    · exact hdz'


/-- fold a cell of the padded image back into the box -/
def foldCell (c : ℕ) : ℕ := c / (3 * nz) * nz + c % (3 * nz) % nz

/-- number of periods by which the periodic difference of cell `c` (of the box) was wrapped -/
def wrapsOf (c : ℕ) : ℚ :=
  ((zlo + (((c % nz : ℕ) : ℚ) + 1 / 2) * dz - z0) - wrapDiff (dz * nz) (zlo + (((c % nz : ℕ) : ℚ) + 1 / 2) * dz - z0)) / (dz * nz)

theorem foldCell_div (hnz : 0 < nz) (c : ℕ) : foldCell nz c / nz = c / (3 * nz) := by
  unfold foldCell
  rw [Nat.add_comm, Nat.add_mul_div_right _ _ hnz, Nat.div_eq_of_lt (Nat.mod_lt _ hnz), zero_add]

theorem foldCell_mod (c : ℕ) : foldCell nz c % nz = c % (3 * nz) % nz := by
  unfold foldCell
  rw [Nat.add_comm, Nat.add_mul_mod_self_right, Nat.mod_mod]

/-- **A periodic image that lies inside the padded image is a faithful copy of the droplet in the box**: folding is a
bijection from its cells onto the cells the droplet covers in the periodic box; it keeps the radial index and moves the
z index by whole periods (`1 + k − wraps`). -/
theorem image_transfer (hdz : 0 < dz) (hnr : 0 < nr) (hnz : 0 < nz) (hR : 0 ≤ R) (h2R : 2 * R < dz * nz) (k : ℤ)
    (hwhole : zlo - dz * nz + R ≤ z0 + (k : ℚ) * (dz * nz) ∧ z0 + (k : ℚ) * (dz * nz) + R ≤ zlo + 2 * (dz * nz)) :
    let S := (Finset.range (nr * (3 * nz))).filter
      (fun c => cylMask dr (zlo - dz * nz) dz nr (3 * nz) (z0 + (k : ℚ) * (dz * nz)) R c = true)
    let T := (Finset.range (nr * nz)).filter (fun c => cylMaskP dr zlo dz nr nz z0 R c = true)
    (∀ c ∈ S, foldCell nz c ∈ T ∧
      ((c % (3 * nz) : ℕ) : ℚ) = ((foldCell nz c % nz : ℕ) : ℚ) + (1 + (k : ℚ) - wrapsOf zlo dz nz z0 (foldCell nz c)) * nz) ∧
    Set.InjOn (foldCell nz) S ∧ Set.SurjOn (foldCell nz) S T := by
  intro S T
  have hL : 0 < dz * nz := mul_pos hdz (by exact_mod_cast hnz)
  have hLne : dz * (nz : ℚ) ≠ 0 := ne_of_gt hL
  have hSmem : ∀ c, c ∈ S ↔ cylMask dr (zlo - dz * nz) dz nr (3 * nz) (z0 + (k : ℚ) * (dz * nz)) R c = true := by
    intro c
    simp only [S, Finset.mem_filter, Finset.mem_range, and_iff_right_iff_imp]
    intro h; exact ((cylMask_iff _ _ _ _ _ _ _ c).mp h).1
  have hTmem : ∀ c, c ∈ T ↔ cylMaskP dr zlo dz nr nz z0 R c = true := by
    intro c
    simp only [T, Finset.mem_filter, Finset.mem_range, and_iff_right_iff_imp]
    intro h; exact ((cylMaskP_iff _ _ _ _ _ _ _ c).mp h).1
  -- facts about one covered cell of the padded image
  have hcell : ∀ c ∈ S, c / (3 * nz) < nr ∧
      wrapDiff (dz * nz) (zlo + (((c % (3 * nz) % nz : ℕ) : ℚ) + 1 / 2) * dz - z0)
        = (zlo - dz * nz) + (((c % (3 * nz) : ℕ) : ℚ) + 1 / 2) * dz - (z0 + (k : ℚ) * (dz * nz)) ∧
      ((c % (3 * nz) : ℕ) : ℚ) = ((c % (3 * nz) % nz : ℕ) : ℚ)
        + (1 + (k : ℚ) - ((zlo + (((c % (3 * nz) % nz : ℕ) : ℚ) + 1 / 2) * dz - z0)
            - wrapDiff (dz * nz) (zlo + (((c % (3 * nz) % nz : ℕ) : ℚ) + 1 / 2) * dz - z0)) / (dz * nz)) * nz := by
    intro c hc
    have hm := (hSmem c).mp hc
    have hz := cylCov_z dr (zlo - dz * nz) dz nr (3 * nz) _ R hR hm
    obtain ⟨hclt, _⟩ := (cylMask_iff _ _ _ _ _ _ _ c).mp hm
    have hinr : c / (3 * nz) < nr := Nat.div_lt_of_lt_mul (by rw [Nat.mul_comm]; exact hclt)
    set J := c % (3 * nz) with hJ
    have hJdecomp : (J : ℚ) = ((J % nz : ℕ) : ℚ) + ((J / nz : ℕ) : ℚ) * nz := by
      have := Nat.mod_add_div J nz
      have h2 : ((J % nz + nz * (J / nz) : ℕ) : ℚ) = J := by rw [this]
      push_cast at h2; linarith
    set j := J % nz with hj
    set m := J / nz with hmdef
    set w := zlo + ((j : ℚ) + 1 / 2) * dz - z0 with hw
    set u := (zlo - dz * nz) + ((J : ℚ) + 1 / 2) * dz - (z0 + (k : ℚ) * (dz * nz)) with hu
    have huw : u = w - (((k : ℤ) + 1 - (m : ℤ) : ℤ) : ℚ) * (dz * nz) := by
      rw [hu, hw, hJdecomp]; push_cast; ring
    have habs := abs_lt.mp hz
    have hwd : wrapDiff (dz * nz) w = u :=
      wrapDiff_unique (dz * nz) w u hL _ huw (by linarith [habs.1]) (by linarith [habs.2])
    refine ⟨hinr, hwd, ?_⟩
    rw [hwd, huw, hJdecomp]
    push_cast
    field_simp
    ring
  refine ⟨?_, ?_, ?_⟩
  · intro c hc
    obtain ⟨hinr, hwd, hJq⟩ := hcell c hc
    have hm := (hSmem c).mp hc
    obtain ⟨_, hd⟩ := (cylMask_iff _ _ _ _ _ _ _ c).mp hm
    refine ⟨(hTmem _).mpr ((cylMaskP_iff _ _ _ _ _ _ _ _).mpr ⟨?_, ?_⟩), ?_⟩
    · unfold foldCell
      have : c % (3 * nz) % nz < nz := Nat.mod_lt _ hnz
      calc c / (3 * nz) * nz + c % (3 * nz) % nz < c / (3 * nz) * nz + nz := by omega
        _ = (c / (3 * nz) + 1) * nz := by ring
        _ ≤ nr * nz := Nat.mul_le_mul_right _ (by omega)
    · rw [foldCell_div nz hnz, foldCell_mod, hwd]
      exact hd
    · unfold wrapsOf
      rw [foldCell_mod]
      exact hJq
  · intro c hc c' hc' hff
    obtain ⟨_, _, hJq⟩ := hcell c hc
    obtain ⟨_, _, hJq'⟩ := hcell c' hc'
    have hdiv : c / (3 * nz) = c' / (3 * nz) := by
      rw [← foldCell_div nz hnz c, ← foldCell_div nz hnz c', hff]
    have hmod : c % (3 * nz) % nz = c' % (3 * nz) % nz := by
      rw [← foldCell_mod nz c, ← foldCell_mod nz c', hff]
    rw [hmod] at hJq
    have : ((c % (3 * nz) : ℕ) : ℚ) = ((c' % (3 * nz) : ℕ) : ℚ) := by rw [hJq, hJq']
    have hJeq : c % (3 * nz) = c' % (3 * nz) := by exact_mod_cast this
    calc c = 3 * nz * (c / (3 * nz)) + c % (3 * nz) := (Nat.div_add_mod c (3 * nz)).symm
      _ = 3 * nz * (c' / (3 * nz)) + c' % (3 * nz) := by rw [hdiv, hJeq]
      _ = c' := Nat.div_add_mod c' (3 * nz)
  · intro ct hct
    have hP := (hTmem ct).mp hct
    obtain ⟨hctlt, hd⟩ := (cylMaskP_iff _ _ _ _ _ _ _ ct).mp hP
    set i := ct / nz with hi
    set j := ct % nz with hj
    have hjlt : j < nz := Nat.mod_lt _ hnz
    have hinr : i < nr := Nat.div_lt_of_lt_mul (by rw [Nat.mul_comm]; exact hctlt)
    rw [Nat.mod_eq_of_lt hinr] at hd
    set w := zlo + ((j : ℚ) + 1 / 2) * dz - z0 with hw
    obtain ⟨k0, hk0⟩ := wrapDiff_congr (dz * nz) w
    set v := wrapDiff (dz * nz) w with hv
    have hvR : |v| < R := by
      have : v * v < R * R := by nlinarith [mul_self_nonneg ((((i : ℕ) : ℚ) + 1 / 2) * dr)]
      exact abs_lt.mpr (abs_lt_of_sq_lt_sq' (by nlinarith) hR)
    have hvb := abs_lt.mp hvR
    have hjq : (0 : ℚ) ≤ j := Nat.cast_nonneg _
    have hjq' : (j : ℚ) + 1 ≤ nz := by exact_mod_cast hjlt
    -- the copy index
    have hm0 : 0 ≤ 1 + k - k0 := by
      by_contra hneg
      have : ((1 + k - k0 : ℤ) : ℚ) ≤ -1 := by exact_mod_cast (by omega : 1 + k - k0 ≤ -1)
      push_cast at this
      nlinarith [hwhole.1]
    have hm2 : 1 + k - k0 ≤ 2 := by
      by_contra hgt
      have : (3 : ℚ) ≤ ((1 + k - k0 : ℤ) : ℚ) := by exact_mod_cast (by omega : 3 ≤ 1 + k - k0)
      push_cast at this
      nlinarith [hwhole.2]
    obtain ⟨m, hm⟩ : ∃ m : ℕ, (m : ℤ) = 1 + k - k0 := ⟨(1 + k - k0).toNat, Int.toNat_of_nonneg hm0⟩
    have hmle : m ≤ 2 := by omega
    have hmq : (m : ℚ) = 1 + k - k0 := by exact_mod_cast hm
    set J := j + m * nz with hJ
    have hJlt : J < 3 * nz := by
      calc J = j + m * nz := rfl
        _ < nz + m * nz := by omega
        _ = (m + 1) * nz := by ring
        _ ≤ 3 * nz := Nat.mul_le_mul_right _ (by omega)
    set c := 3 * nz * i + J with hc
    have hcdiv : c / (3 * nz) = i := by
      rw [hc, Nat.add_comm, Nat.add_mul_div_left _ _ (by omega : 0 < 3 * nz), Nat.div_eq_of_lt hJlt, zero_add]
    have hcmod : c % (3 * nz) = J := by
      rw [hc, Nat.add_comm, Nat.add_mul_mod_self_left, Nat.mod_eq_of_lt hJlt]
    have hJmod : J % nz = j := by rw [hJ, Nat.add_mul_mod_self_right, Nat.mod_eq_of_lt hjlt]
    have hcS : c ∈ S := by
      rw [hSmem, cylMask_iff]
      refine ⟨?_, ?_⟩
      · calc c = 3 * nz * i + J := rfl
          _ < 3 * nz * i + 3 * nz := by omega
          _ = 3 * nz * (i + 1) := by ring
          _ ≤ 3 * nz * nr := Nat.mul_le_mul_left _ (by omega)
          _ = nr * (3 * nz) := by ring
      · rw [hcdiv, hcmod, Nat.mod_eq_of_lt hinr]
        have : (zlo - dz * nz) + ((J : ℚ) + 1 / 2) * dz - (z0 + (k : ℚ) * (dz * nz)) = v := by
          rw [hk0, hw, hJ]; push_cast; rw [hmq]; ring
        rw [this]; exact hd
    refine ⟨c, hcS, ?_⟩
    unfold foldCell
    rw [hcdiv, hcmod, hJmod, hi, hj]
    exact Nat.div_add_mod' ct nz


/-- unwrapped mean height (cell units) of the droplet's cells in the periodic box -/
def zetaP : ℚ :=
  (∑ c ∈ (Finset.range (nr * nz)).filter (fun c => cylMaskP dr zlo dz nr nz z0 R c = true),
      (((c % nz : ℕ) : ℚ) - wrapsOf zlo dz nz z0 c * nz))
    / (((Finset.range (nr * nz)).filter (fun c => cylMaskP dr zlo dz nr nz z0 R c = true)).card : ℚ) + 1 / 2

/-- weight (volume / π dr² dz) of the cells the droplet covers in the periodic box -/
def weightP : ℕ := (((List.range (nr * nz)).filter (cylMaskP dr zlo dz nr nz z0 R)).map fun c => 2 * (c / nz) + 1).sum

theorem list_filter_sum_gen {M : Type} [AddCommMonoid M] (n : ℕ) (p : ℕ → Bool) (f : ℕ → M) :
    (((List.range n).filter p).map f).sum = ∑ c ∈ (Finset.range n).filter (fun c => p c = true), f c := by
  rw [← List.sum_toFinset f ((List.nodup_range).filter _), List.toFinset_filter, List.toFinset_range]

/-- the cluster of a periodic image that lies inside the padded image: exact weight, and its height is the unwrapped
mean height plus `k` periods -/
theorem image_cluster (hdz : 0 < dz) (hnr : 0 < nr) (hnz : 0 < nz) (hR : 0 ≤ R) (h2R : 2 * R < dz * nz) (k : ℤ)
    (hwhole : zlo - dz * nz + R ≤ z0 + (k : ℚ) * (dz * nz) ∧ z0 + (k : ℚ) * (dz * nz) + R ≤ zlo + 2 * (dz * nz))
    (hne : ∃ c, cylMaskP dr zlo dz nr nz z0 R c = true) (lbl : ℕ) :
    let cl : Cluster := ⟨lbl, cylCov dr (zlo - dz * nz) dz nr (3 * nz) (z0 + (k : ℚ) * (dz * nz)) R⟩
    cl.cells ≠ [] ∧ Cluster.weight (3 * nz) cl = weightP dr zlo dz nr nz z0 R ∧
      Cluster.zpos (3 * nz) cl - nz = zetaP dr zlo dz nr nz z0 R + (k : ℚ) * nz := by
  intro cl
  obtain ⟨hmap, hinj, hsurj⟩ := image_transfer dr zlo dz nr nz z0 R hdz hnr hnz hR h2R k hwhole
  set S := (Finset.range (nr * (3 * nz))).filter
    (fun c => cylMask dr (zlo - dz * nz) dz nr (3 * nz) (z0 + (k : ℚ) * (dz * nz)) R c = true) with hS
  set T := (Finset.range (nr * nz)).filter (fun c => cylMaskP dr zlo dz nr nz z0 R c = true) with hT
  have hTne : T.Nonempty := by
    obtain ⟨c, hc⟩ := hne
    exact ⟨c, by simp only [hT, Finset.mem_filter, Finset.mem_range]; exact ⟨((cylMaskP_iff _ _ _ _ _ _ _ c).mp hc).1, hc⟩⟩
  have hcard : S.card = T.card := Finset.card_nbij (foldCell nz) (fun c hc => (hmap c hc).1) hinj hsurj
  have hTpos : (0 : ℚ) < T.card := by exact_mod_cast hTne.card_pos
  refine ⟨?_, ?_, ?_⟩
  · obtain ⟨ct, hct⟩ := hTne
    obtain ⟨c, hc, _⟩ := hsurj hct
    intro hnil
    have : c ∈ cylCov dr (zlo - dz * nz) dz nr (3 * nz) (z0 + (k : ℚ) * (dz * nz)) R := by
      rw [mem_cylCov]; exact (Finset.mem_filter.mp hc).2
    rw [show cl.cells = cylCov dr (zlo - dz * nz) dz nr (3 * nz) (z0 + (k : ℚ) * (dz * nz)) R from rfl] at hnil
    rw [hnil] at this; simp at this
  · rw [cylCov_weight]
    unfold cylCov weightP
    rw [list_filter_sum_gen, list_filter_sum_gen]
    exact Finset.sum_nbij (foldCell nz) (fun c hc => (hmap c hc).1) hinj hsurj
      (fun c _ => by rw [foldCell_div nz hnz])
  · unfold Cluster.zpos zIdx zetaP
    rw [foldl_add_rat, zero_add]
    show ((cylCov dr (zlo - dz * nz) dz nr (3 * nz) (z0 + (k : ℚ) * (dz * nz)) R).map fun c => ((c % (3 * nz) : ℕ) : ℚ)).sum
      / ((cylCov dr (zlo - dz * nz) dz nr (3 * nz) (z0 + (k : ℚ) * (dz * nz)) R).length : ℚ) + 1 / 2 - nz = _
    unfold cylCov
    rw [list_filter_sum_gen, list_filter_card]
    change (∑ c ∈ S, ((c % (3 * nz) : ℕ) : ℚ)) / (S.card : ℚ) + 1 / 2 - nz = (∑ c ∈ T, _) / (T.card : ℚ) + 1 / 2 + _
    have hsum : ∑ c ∈ S, ((c % (3 * nz) : ℕ) : ℚ)
        = ∑ ct ∈ T, (((ct % nz : ℕ) : ℚ) + (1 + (k : ℚ) - wrapsOf zlo dz nz z0 ct) * nz) :=
      Finset.sum_nbij (foldCell nz) (fun c hc => (hmap c hc).1) hinj hsurj (fun c hc => (hmap c hc).2)
    rw [hsum, hcard]
    have hsplit : ∑ ct ∈ T, (((ct % nz : ℕ) : ℚ) + (1 + (k : ℚ) - wrapsOf zlo dz nz z0 ct) * nz)
        = ∑ ct ∈ T, (((ct % nz : ℕ) : ℚ) - wrapsOf zlo dz nz z0 ct * nz) + (T.card : ℚ) * ((1 + (k : ℚ)) * nz) := by
      rw [Finset.card_eq_sum_ones]
      push_cast
      rw [Finset.sum_mul, ← Finset.sum_add_distrib]
      apply Finset.sum_congr rfl; intro c _; ring
    rw [hsplit]
    generalize (∑ ct ∈ T, (((ct % nz : ℕ) : ℚ) - wrapsOf zlo dz nz z0 ct * nz)) = sig0
    field_simp
    ring


/-- a periodic image whose cluster is kept by the box filter lies inside the padded image -/
theorem kept_is_whole (hdz : 0 < dz) (hR : 0 ≤ R) (h2R : 2 * R < dz * nz) (zk : ℚ) (lbl : ℕ)
    (hne : cylCov dr (zlo - dz * nz) dz nr (3 * nz) zk R ≠ [])
    (h0 : 0 ≤ Cluster.zpos (3 * nz) ⟨lbl, cylCov dr (zlo - dz * nz) dz nr (3 * nz) zk R⟩ - nz)
    (h1 : Cluster.zpos (3 * nz) ⟨lbl, cylCov dr (zlo - dz * nz) dz nr (3 * nz) zk R⟩ - nz ≤ nz) :
    zlo - dz * nz + R ≤ zk ∧ zk + R ≤ zlo + 2 * (dz * nz) := by
  set cl : Cluster := ⟨lbl, cylCov dr (zlo - dz * nz) dz nr (3 * nz) zk R⟩ with hcl
  have hcell : ∀ c ∈ cl.cells, |zlo - dz * nz + (((c % (3 * nz) : ℕ) : ℚ) + 1 / 2) * dz - zk| < R := by
    intro c hc
    exact cylCov_z dr (zlo - dz * nz) dz nr (3 * nz) zk R hR ((mem_cylCov _ _ _ _ _ _ _ c).mp hc)
  constructor
  · by_contra hcon
    push Not at hcon
    have : cl.zpos (3 * nz) < nz := by
      apply zpos_lt (3 * nz) cl hne
      intro c hc
      have := (abs_lt.mp (hcell c hc)).2
      have h3 : ((zIdx (3 * nz) c : ℚ) + 1 / 2) * dz < (nz : ℚ) * dz := by
        unfold zIdx; nlinarith
      exact lt_of_mul_lt_mul_right h3 hdz.le
    linarith
  · by_contra hcon
    push Not at hcon
    have : (2 * nz : ℚ) < cl.zpos (3 * nz) := by
      apply lt_zpos (3 * nz) cl hne
      intro c hc
      have := (abs_lt.mp (hcell c hc)).1
      have h3 : (2 * (nz : ℚ)) * dz < ((zIdx (3 * nz) c : ℚ) + 1 / 2) * dz := by
        unfold zIdx; nlinarith
      exact lt_of_mul_lt_mul_right h3 hdz.le
    linarith

/-- no periodic image triggers the 'spanning' test -/
theorem image_not_spanning (hdz : 0 < dz) (hR : 0 ≤ R) (h2R : 2 * R < dz * nz) (zk : ℚ) (lbl : ℕ) :
    Cluster.spans (3 * nz) (⟨lbl, cylCov dr (zlo - dz * nz) dz nr (3 * nz) zk R⟩ : Cluster) nz = false := by
  by_contra hcon
  have hcon' : Cluster.spans (3 * nz) (⟨lbl, cylCov dr (zlo - dz * nz) dz nr (3 * nz) zk R⟩ : Cluster) nz = true := by
    simpa using hcon
  unfold Cluster.spans zIdx at hcon'
  simp only [Bool.and_eq_true, List.any_eq_true, beq_iff_eq, decide_eq_true_eq] at hcon'
  obtain ⟨⟨c1, hc1, hz1⟩, ⟨c2, hc2, hz2⟩⟩ := hcon'
  have a1 := abs_lt.mp (cylCov_z dr (zlo - dz * nz) dz nr (3 * nz) zk R hR ((mem_cylCov _ _ _ _ _ _ _ c1).mp hc1))
  have a2 := abs_lt.mp (cylCov_z dr (zlo - dz * nz) dz nr (3 * nz) zk R hR ((mem_cylCov _ _ _ _ _ _ _ c2).mp hc2))
  rw [hz1] at a1
  have hq : (nz : ℚ) ≤ ((c2 % (3 * nz) : ℕ) : ℚ) := by exact_mod_cast hz2
  push_cast at a1
  nlinarith


/-- **C01 on a cylindrical grid with PERIODIC z, for the model of `_locate_droplets_in_mask_cylindrical`.**
A droplet centred on the symmetry axis anywhere in the periodic box (also straddling the periodic boundary), shorter than
the box by two cells (`2R + 2h ≤ L`, `h` a bound on the cell sizes) and covering at least one cell centre: the padded
analysis is not abandoned, it hands on at least one candidate, and EVERY candidate handed to the overlap filter has
exactly the weight of the cells the droplet covers in the periodic box, lies in the box `[0, nz)` (cell units) and within
HALF A CELL of the droplet's height modulo the period.  (Two candidates arise only when the located height falls exactly
on the boundary; they coincide after wrapping — repair 45d5185 — and the overlap filter keeps one: C10.) -/
theorem C01_cylinder_periodic_model (hdr : 0 < dr) (hdz : 0 < dz) (hnr : 0 < nr) (hnz : 0 < nz) (hR : 0 ≤ R)
    (hmax : ℚ) (hdr' : dr ≤ hmax) (hdz' : dz ≤ hmax) (hres : 2 * R + 2 * hmax ≤ dz * nz)
    (hz0 : zlo ≤ z0 ∧ z0 < zlo + dz * nz) (hne : ∃ c, cylMaskP dr zlo dz nr nz z0 R c = true) :
    ∃ cs, candidates nr nz true (cylMaskP dr zlo dz nr nz z0 R) = some cs ∧ cs ≠ [] ∧
      ∀ p ∈ cs, p.2 = weightP dr zlo dz nr nz z0 R ∧ 0 ≤ p.1 ∧ p.1 < nz ∧
        ∃ m : ℤ, |zlo + p.1 * dz - z0 - (m : ℚ) * (dz * nz)| < dz / 2 := by
  have hL : 0 < dz * nz := mul_pos hdz (by exact_mod_cast hnz)
  have hmax0 : 0 < hmax := lt_of_lt_of_le hdz hdz'
  have h2R : 2 * R < dz * nz := by linarith
  have hnzq : (1 : ℚ) ≤ nz := by exact_mod_cast hnz
  set P := cylMaskP dr zlo dz nr nz z0 R with hPdef
  set axes3 := cylAxes dr (zlo - dz * nz) dz nr (3 * nz) with haxes3
  set balls := balls5 dz nz z0 R with hballs
  have hP3 : padded nz P = emulsionMask axes3 balls := funext (padded_eq_emulsion dr zlo dz nr nz z0 R hdz hnz hz0)
  have hsep := balls5_separated dr zlo dz nr nz z0 R hdr hdz hnr hnz hR hmax hdr' hdz' (by linarith)
  have hlen : ∀ b ∈ balls, b.1.length = 2 := by
    intro b hb
    obtain ⟨k, _, _, rfl⟩ := (mem_balls5 dz nz z0 R b).mp hb
    rfl
  obtain ⟨hA, hB⟩ := cyl_clusters_are_balls dr (zlo - dz * nz) dz nr (3 * nz) hdr hdz hnr (by omega) balls hlen hsep
  set clusters := clustersOf (labelExec [nr, 3 * nz] (emulsionMask axes3 balls)) with hclusters
  -- every cluster consists of the cells of one periodic image
  have hclk : ∀ cl ∈ clusters, ∃ k : ℤ, -2 ≤ k ∧ k ≤ 2 ∧
      cl = ⟨cl.label, cylCov dr (zlo - dz * nz) dz nr (3 * nz) (z0 + (k : ℚ) * (dz * nz)) R⟩ ∧
      cylCov dr (zlo - dz * nz) dz nr (3 * nz) (z0 + (k : ℚ) * (dz * nz)) R ≠ [] := by
    intro cl hcl
    obtain ⟨b, hb, ⟨c, hc⟩, hcells⟩ := hA cl hcl
    obtain ⟨k, hk1, hk2, rfl⟩ := (mem_balls5 dz nz z0 R b).mp hb
    refine ⟨k, hk1, hk2, ?_, ?_⟩
    · cases cl; simp only [Cluster.mk.injEq, true_and]; exact hcells
    · intro hnil
      have : c ∈ cylCov dr (zlo - dz * nz) dz nr (3 * nz) (z0 + (k : ℚ) * (dz * nz)) R :=
        (mem_cylCov _ _ _ _ _ _ _ c).mpr hc
      rw [hnil] at this; simp at this
  have hon : ∀ cl ∈ clusters, Cluster.onAxis (3 * nz) cl = true := by
    intro cl hcl
    obtain ⟨k, _, _, hcleq, hnn⟩ := hclk cl hcl
    rw [hcleq]
    apply cylCov_onAxis dr (zlo - dz * nz) dz nr (3 * nz) _ R hdr hnr (by omega)
    obtain ⟨c, hc⟩ := List.exists_mem_of_ne_nil _ hnn
    exact ⟨c, (mem_cylCov _ _ _ _ _ _ _ c).mp hc⟩
  have hsp : ∀ cl ∈ clusters, Cluster.spans (3 * nz) cl nz = false := by
    intro cl hcl
    obtain ⟨k, _, _, hcleq, _⟩ := hclk cl hcl
    rw [hcleq]
    exact image_not_spanning dr zlo dz nr nz R hdz hR h2R _ _
  have hsingle : single nr (3 * nz) nz (padded nz P) =
      some (clusters.map fun cl => (cl.zpos (3 * nz), cl.weight (3 * nz))) := by
    unfold single
    rw [hP3]
    simp only
    rw [← hclusters, List.filter_eq_self.mpr hon]
    have : (clusters.any fun cl => cl.spans (3 * nz) nz) = false := by
      rw [List.any_eq_false]; intro cl hcl; rw [hsp cl hcl]; simp
    rw [this]; simp
  -- the candidates
  have hcand : candidates nr nz true P = some
      ((((clusters.map fun cl => (cl.zpos (3 * nz), cl.weight (3 * nz))).map fun p => (p.1 - (nz : ℚ), p.2)).filter
        fun p => decide (0 ≤ p.1) && decide (p.1 ≤ (nz : ℚ))).map fun p => (if p.1 == (nz : ℚ) then 0 else p.1, p.2)) := by
    unfold candidates
    simp only [if_true, hsingle]
  refine ⟨_, hcand, ?_, ?_⟩
  · -- at least one candidate: the image 0, or the neighbour that carries its height into the box
    have hw0 : zlo - dz * nz + R ≤ z0 + ((0 : ℤ) : ℚ) * (dz * nz) ∧ z0 + ((0 : ℤ) : ℚ) * (dz * nz) + R ≤ zlo + 2 * (dz * nz) := by
      push_cast; constructor <;> nlinarith [hz0.1, hz0.2]
    obtain ⟨hne0, _, hz0pos⟩ := image_cluster dr zlo dz nr nz z0 R hdz hnr hnz hR h2R 0 hw0 hne 0
    have hhalf := cylCov_zpos dr (zlo - dz * nz) dz nr (3 * nz) (z0 + ((0 : ℤ) : ℚ) * (dz * nz)) R hdr hdz hnr (by omega) hR 0
      (by push_cast; constructor <;> nlinarith [hw0.1, hw0.2])
      (by obtain ⟨c, hc⟩ := List.exists_mem_of_ne_nil _ hne0; exact ⟨c, (mem_cylCov _ _ _ _ _ _ _ c).mp hc⟩)
    set ζ := zetaP dr zlo dz nr nz z0 R with hζ
    -- |zlo + ζ dz − z0| < dz/2
    have hζb : |zlo + ζ * dz - z0| < dz / 2 := by
      have e : Cluster.zpos (3 * nz) ⟨0, cylCov dr (zlo - dz * nz) dz nr (3 * nz) (z0 + ((0 : ℤ) : ℚ) * (dz * nz)) R⟩
          = ζ + nz := by push_cast at hz0pos ⊢; linarith
      rw [e] at hhalf
      have : zlo - dz * nz + (ζ + nz) * dz - (z0 + ((0 : ℤ) : ℚ) * (dz * nz)) = zlo + ζ * dz - z0 := by push_cast; ring
      rw [this] at hhalf; exact hhalf
    obtain ⟨hζ1, hζ2⟩ := abs_lt.mp hζb
    -- choose the image
    obtain ⟨k, hk1, hk2, hwk, hq0, hq1⟩ : ∃ k : ℤ, -2 ≤ k ∧ k ≤ 2 ∧
        (zlo - dz * nz + R ≤ z0 + (k : ℚ) * (dz * nz) ∧ z0 + (k : ℚ) * (dz * nz) + R ≤ zlo + 2 * (dz * nz)) ∧
        0 ≤ ζ + (k : ℚ) * nz ∧ ζ + (k : ℚ) * nz ≤ nz := by
      rcases lt_or_ge ζ 0 with hneg | hnn
      · refine ⟨1, by omega, by omega, ?_, ?_, ?_⟩
        · push_cast; constructor <;> nlinarith
        · push_cast; nlinarith
        · push_cast; nlinarith
      · rcases le_or_gt ζ nz with hle | hgt
        · exact ⟨0, by omega, by omega, hw0, by push_cast; linarith, by push_cast; linarith⟩
        · refine ⟨-1, by omega, by omega, ?_, ?_, ?_⟩
          · push_cast; constructor <;> nlinarith
          · push_cast; nlinarith
          · push_cast; nlinarith
    obtain ⟨hnek, hwk', hzk⟩ := image_cluster dr zlo dz nr nz z0 R hdz hnr hnz hR h2R k hwk hne 0
    obtain ⟨c, hc⟩ := List.exists_mem_of_ne_nil _ hnek
    have hcm : cylMask dr (zlo - dz * nz) dz nr (3 * nz) (z0 + (k : ℚ) * (dz * nz)) R c = true := (mem_cylCov _ _ _ _ _ _ _ c).mp hc
    obtain ⟨cl, hcl, hcells⟩ := hB (ballAt dz nz z0 R k) ((mem_balls5 dz nz z0 R _).mpr ⟨k, hk1, hk2, rfl⟩) ⟨c, hcm⟩
    have hcleq : cl = ⟨cl.label, cylCov dr (zlo - dz * nz) dz nr (3 * nz) (z0 + (k : ℚ) * (dz * nz)) R⟩ := by
      cases cl; simp only [Cluster.mk.injEq, true_and]; exact hcells
    have hzcl : cl.zpos (3 * nz) - nz = ζ + (k : ℚ) * nz := by
      rw [hcleq]
      exact (image_cluster dr zlo dz nr nz z0 R hdz hnr hnz hR h2R k hwk hne cl.label).2.2
    intro hnil
    have hmem : (if (cl.zpos (3 * nz) - (nz : ℚ)) == (nz : ℚ) then (0 : ℚ) else cl.zpos (3 * nz) - (nz : ℚ), cl.weight (3 * nz)) ∈
        ((((clusters.map fun cl => (cl.zpos (3 * nz), cl.weight (3 * nz))).map fun p => (p.1 - (nz : ℚ), p.2)).filter
          fun p => decide (0 ≤ p.1) && decide (p.1 ≤ (nz : ℚ))).map fun p => (if p.1 == (nz : ℚ) then 0 else p.1, p.2)) := by
      apply List.mem_map.mpr
      refine ⟨(cl.zpos (3 * nz) - (nz : ℚ), cl.weight (3 * nz)), ?_, rfl⟩
      apply List.mem_filter.mpr
      refine ⟨?_, ?_⟩
      · apply List.mem_map.mpr
        exact ⟨(cl.zpos (3 * nz), cl.weight (3 * nz)), List.mem_map.mpr ⟨cl, hcl, rfl⟩, rfl⟩
      · simp only [Bool.and_eq_true, decide_eq_true_eq]
        rw [hzcl]; exact ⟨hq0, hq1⟩
    rw [hnil] at hmem; simp at hmem
  · intro p hp
    obtain ⟨q, hq, rfl⟩ := List.mem_map.mp hp
    obtain ⟨hqm, hkeep⟩ := List.mem_filter.mp hq
    simp only [Bool.and_eq_true, decide_eq_true_eq] at hkeep
    obtain ⟨q', hq', rfl⟩ := List.mem_map.mp hqm
    obtain ⟨cl, hcl, rfl⟩ := List.mem_map.mp hq'
    simp only at hkeep ⊢
    obtain ⟨k, hk1, hk2, hcleq, hnn⟩ := hclk cl hcl
    have hkeep' : 0 ≤ Cluster.zpos (3 * nz) ⟨cl.label, cylCov dr (zlo - dz * nz) dz nr (3 * nz) (z0 + (k : ℚ) * (dz * nz)) R⟩ - nz ∧
        Cluster.zpos (3 * nz) ⟨cl.label, cylCov dr (zlo - dz * nz) dz nr (3 * nz) (z0 + (k : ℚ) * (dz * nz)) R⟩ - nz ≤ nz := by
      rw [← hcleq]; exact hkeep
    have hwk := kept_is_whole dr zlo dz nr nz R hdz hR h2R _ cl.label hnn hkeep'.1 hkeep'.2
    obtain ⟨_, hwt, hzk⟩ := image_cluster dr zlo dz nr nz z0 R hdz hnr hnz hR h2R k hwk hne cl.label
    have hhalf := cylCov_zpos dr (zlo - dz * nz) dz nr (3 * nz) (z0 + (k : ℚ) * (dz * nz)) R hdr hdz hnr (by omega) hR cl.label
      (by push_cast; constructor <;> nlinarith [hwk.1, hwk.2])
      (by obtain ⟨c, hc⟩ := List.exists_mem_of_ne_nil _ hnn; exact ⟨c, (mem_cylCov _ _ _ _ _ _ _ c).mp hc⟩)
    rw [← hcleq] at hwt hhalf
    set q1 := cl.zpos (3 * nz) - (nz : ℚ) with hq1
    have hhalf' : |zlo + q1 * dz - z0 - (k : ℚ) * (dz * nz)| < dz / 2 := by
      have : zlo - dz * nz + cl.zpos (3 * nz) * dz - (z0 + (k : ℚ) * (dz * nz)) = zlo + q1 * dz - z0 - (k : ℚ) * (dz * nz) := by
        rw [hq1]; ring
      rw [this] at hhalf; exact hhalf
    refine ⟨hwt, ?_⟩
    by_cases he : q1 = (nz : ℚ)
    · have hbeq : (q1 == (nz : ℚ)) = true := by simpa using he
      simp only [hbeq, if_true]
      refine ⟨le_rfl, by linarith, k - 1, ?_⟩
      have : zlo + (0 : ℚ) * dz - z0 - ((k - 1 : ℤ) : ℚ) * (dz * nz) = zlo + q1 * dz - z0 - (k : ℚ) * (dz * nz) := by
        rw [he]; push_cast; ring
      rw [this]; exact hhalf'
    · have hbeq : (q1 == (nz : ℚ)) = false := by simpa using he
      simp only [hbeq]
      exact ⟨hkeep.1, lt_of_le_of_ne hkeep.2 he, k, hhalf'⟩

end cylper

/-- non-vacuity: 4 × 8 cells of size 1, periodic z, droplet of radius 2.2 on the axis at height 0.2, i.e. across the
periodic boundary (`2R + 2h = 6.4 ≤ 8`): it covers 7 cells on both sides of the boundary, and the executed model hands on
one candidate at 3/14 ≈ 0.21 cells (within half a cell of 0.2) with the weight 13 of those cells -/
example : cylMaskP 1 0 1 4 8 (1/5) (11/5) 15 = true := by decide +kernel
example : Cyl.candidates 4 8 true (cylMaskP 1 0 1 4 8 (1/5) (11/5)) = some [(3/14, 13)] ∧
    weightP 1 0 1 4 8 (1/5) (11/5) = 13 := by decide +kernel
end DV.C01

/-! ### the last step: the overlap filter has nothing to remove (packing bound + periodic triangle inequality) -/



namespace DV.C01
open DV

/-- equal-volume radius in 3-D is monotone: a volume below that of the sphere of radius `ρ` gives a radius ≤ ρ -/
theorem radius_from_volume_le_three (V ρ : ℝ) (hV : 0 ≤ V) (hρ : 0 ≤ ρ) (h : V ≤ ρ ^ 3 * (Real.pi * 4 / 3)) :
    ∃ r, Gen.radius_from_volume V 3 = .ok r ∧ 0 ≤ r ∧ r ≤ ρ := by
  refine ⟨(3 * V / (4 * Real.pi)) ^ ((1 : ℝ) / 3), ?_, ?_, ?_⟩
  · simp [Gen.radius_from_volume]
  · apply Real.rpow_nonneg
    have := Real.pi_pos
    positivity
  · have hpi := Real.pi_pos
    have h1 : 3 * V / (4 * Real.pi) ≤ ρ ^ 3 := by
      rw [div_le_iff₀ (by positivity)]
      nlinarith
    have h0 : 0 ≤ 3 * V / (4 * Real.pi) := by positivity
    calc (3 * V / (4 * Real.pi)) ^ ((1 : ℝ) / 3) ≤ (ρ ^ 3) ^ ((1 : ℝ) / 3) := Real.rpow_le_rpow h0 h1 (by norm_num)
      _ = ρ := by
        rw [one_div]
        exact_mod_cast Real.pow_rpow_inv_natCast hρ (by norm_num : (3 : ℕ) ≠ 0)

theorem radius_from_volume_le_two (V ρ : ℝ) (hV : 0 ≤ V) (hρ : 0 ≤ ρ) (h : V ≤ ρ ^ 2 * Real.pi) :
    ∃ r, Gen.radius_from_volume V 2 = .ok r ∧ 0 ≤ r ∧ r ≤ ρ := by
  refine ⟨Real.sqrt (V / Real.pi), ?_, Real.sqrt_nonneg _, ?_⟩
  · simp [Gen.radius_from_volume]
  · have hpi := Real.pi_pos
    have h1 : V / Real.pi ≤ ρ ^ 2 := by
      rw [div_le_iff₀ hpi]; exact h
    calc Real.sqrt (V / Real.pi) ≤ Real.sqrt (ρ ^ 2) := Real.sqrt_le_sqrt h1
      _ = ρ := Real.sqrt_sq hρ

theorem radius_from_volume_le_one (V ρ : ℝ) (hV : 0 ≤ V) (h : V ≤ 2 * ρ) :
    ∃ r, Gen.radius_from_volume V 1 = .ok r ∧ 0 ≤ r ∧ r ≤ ρ := by
  refine ⟨V / 2, ?_, by positivity, by linarith⟩
  simp [Gen.radius_from_volume]

end DV.C01

namespace DV.C01
open Finset BigOperators DV.Merge DV.MergeInv DV.Label DV.LabelInv DV.GridGeom DV.Render DV.BallConn DV.WrapDiff DV.C02 DV.Lattice WithLp

variable (axes : List Axis) (ctr : List ℚ)

/-- lattice index of a cell, unwrapped around the droplet -/
def latticeIdx (c a : ℕ) : ℤ := (coordOf (shapeOf axes) c a : ℤ) - wrapCount axes ctr c a * ((axes.getD a default).n : ℤ)

theorem coordOf_lt_axis (h : GridWF axes ctr) (c : ℕ) {a : ℕ} (ha : a < axes.length) :
    coordOf (shapeOf axes) c a < (axes.getD a default).n := by
  have := coordOf_lt (shapeOf axes) (shape_pos axes ctr h) c a (by unfold shapeOf; simpa using ha)
  rwa [shape_getD axes ha] at this

theorem latticeIdx_inj (h : GridWF axes ctr) {c c' : ℕ} (hc : c < numCells (shapeOf axes)) (hc' : c' < numCells (shapeOf axes))
    (heq : ∀ a, a < axes.length → latticeIdx axes ctr c a = latticeIdx axes ctr c' a) : c = c' := by
  apply unflat_inj (shapeOf axes) (shape_pos axes ctr h) hc hc'
  apply List.ext_getElem
  · rw [unflat_length axes ctr h, unflat_length axes ctr h]
  · intro a h1 h2
    have ha : a < axes.length := by rw [unflat_length axes ctr h] at h1; exact h1
    have e := heq a ha
    unfold latticeIdx at e
    have l1 := coordOf_lt_axis axes ctr h c ha
    have l2 := coordOf_lt_axis axes ctr h c' ha
    set N := (axes.getD a default).n with hN
    have hNpos : 0 < N := (axis_wf axes ctr h ha).n_pos
    have hmod : ((coordOf (shapeOf axes) c a : ℤ)) % (N : ℤ) = ((coordOf (shapeOf axes) c' a : ℤ)) % (N : ℤ) := by
      have : (coordOf (shapeOf axes) c a : ℤ) = (coordOf (shapeOf axes) c' a : ℤ)
          + (wrapCount axes ctr c a - wrapCount axes ctr c' a) * (N : ℤ) := by linarith
      rw [this, Int.add_mul_emod_self_right]
    rw [Int.emod_eq_of_lt (by positivity) (by exact_mod_cast l1), Int.emod_eq_of_lt (by positivity) (by exact_mod_cast l2)] at hmod
    have hco : coordOf (shapeOf axes) c a = coordOf (shapeOf axes) c' a := by exact_mod_cast hmod
    unfold coordOf at hco
    rw [List.getD_eq_getElem?_getD, List.getD_eq_getElem?_getD, List.getElem?_eq_getElem h1, List.getElem?_eq_getElem h2] at hco
    simpa using hco

/-- **The cells covered by a droplet, unwrapped around it, are distinct lattice points within `R` of its centre.** -/
theorem covered_as_lattice (h : GridWF axes ctr) (R : ℚ) (hR : 0 ≤ R) (d : ℕ) (hd : axes.length = d) :
    ∃ T : Finset (Fin d → ℤ),
      T.card = ((Finset.range (numCells (shapeOf axes))).filter fun c => ballMask axes ctr R c = true).card ∧
      ∀ n ∈ T, ‖(toLp 2 (centre (fun a : Fin d => (((axes.getD a default).lo : ℚ) : ℝ)) (fun a : Fin d => (((axes.getD a default).dx : ℚ) : ℝ)) n)
          : EuclideanSpace ℝ (Fin d)) - toLp 2 (fun a : Fin d => ((ctr.getD a 0 : ℚ) : ℝ))‖ < (R : ℝ) := by
  set S := (Finset.range (numCells (shapeOf axes))).filter fun c => ballMask axes ctr R c = true with hS
  refine ⟨S.image fun c => fun a : Fin d => latticeIdx axes ctr c a, ?_, ?_⟩
  · apply Finset.card_image_of_injOn
    intro c hc c' hc' heq
    have m1 := (ballMask_iff axes ctr R c).mp (Finset.mem_filter.mp hc).2
    have m2 := (ballMask_iff axes ctr R c').mp (Finset.mem_filter.mp hc').2
    apply latticeIdx_inj axes ctr h m1.1 m2.1
    intro a ha
    have := congrFun heq ⟨a, by omega⟩
    simpa using this
  · intro n hn
    obtain ⟨c, hc, rfl⟩ := Finset.mem_image.mp hn
    have m := (ballMask_iff axes ctr R c).mp (Finset.mem_filter.mp hc).2
    have hD := m.2
    rw [D_eq_sum axes h c] at hD
    rw [EuclideanSpace.norm_eq]
    have hRr : (0 : ℝ) ≤ R := by exact_mod_cast hR
    rw [← Real.sqrt_sq hRr]
    apply Real.sqrt_lt_sqrt (Finset.sum_nonneg fun a _ => sq_nonneg _)
    have hterm : ∀ a : Fin d, ‖(toLp 2 (centre (fun a : Fin d => (((axes.getD a default).lo : ℚ) : ℝ)) (fun a : Fin d => (((axes.getD a default).dx : ℚ) : ℝ))
          (fun a : Fin d => latticeIdx axes ctr c a)) : EuclideanSpace ℝ (Fin d)) a - (toLp 2 (fun a : Fin d => ((ctr.getD a 0 : ℚ) : ℝ)) : EuclideanSpace ℝ (Fin d)) a‖ ^ 2
        = (((U axes ctr c a) ^ 2 : ℚ) : ℝ) := by
      intro a
      rw [Real.norm_eq_abs, sq_abs]
      simp only [centre, latticeIdx]
      rw [U_eq_unwrapped]
      unfold Axis.centre Axis.length
      push_cast
      ring
    simp only [PiLp.sub_apply]
    rw [Finset.sum_congr rfl fun a _ => hterm a]
    rw [Fin.sum_univ_eq_sum_range (fun a => (((U axes ctr c a) ^ 2 : ℚ) : ℝ)) d, ← hd]
    have : (∑ a ∈ Finset.range axes.length, (((U axes ctr c a) ^ 2 : ℚ) : ℝ)) = ((∑ a ∈ Finset.range axes.length, U axes ctr c a ^ 2 : ℚ) : ℝ) := by
      push_cast; rfl
    rw [this]
    have : ((R * R : ℚ) : ℝ) = (R : ℝ) ^ 2 := by push_cast; ring
    rw [← this]
    exact_mod_cast hD


/-- **Located spheres do not overlap.**  Two droplets whose centres are at least `R₁ + R₂ + 4ρ` apart (periodic metric; `ρ` ≥ half
the cell diagonal), located at positions within half a cell per axis of their centres (modulo whole periods on periodic axes)
with radii at most `Rᵢ + ρ`: the located spheres do not overlap under the periodic metric. -/
theorem located_spheres_disjoint {p q : List ℚ} (hp : GridWF axes p) (R1 R2 ρ : ℚ) (h1 : 0 ≤ R1) (h2 : 0 ≤ R2) (hρ : 0 ≤ ρ)
    (hdiag : ∑ a ∈ Finset.range axes.length, ((axes.getD a default).dx / 2) ^ 2 ≤ ρ ^ 2)
    (hsep : (R1 + R2 + 4 * ρ) ^ 2 ≤ cdist2 axes p q)
    (P Q : List ℚ)
    (hP : ∀ a, a < axes.length → ∃ m : ℤ, ((axes.getD a default).periodic = false → m = 0) ∧
      |P.getD a 0 - (m : ℚ) * (axes.getD a default).length - p.getD a 0| < (axes.getD a default).dx / 2)
    (hQ : ∀ a, a < axes.length → ∃ m : ℤ, ((axes.getD a default).periodic = false → m = 0) ∧
      |Q.getD a 0 - (m : ℚ) * (axes.getD a default).length - q.getD a 0| < (axes.getD a default).dx / 2)
    (r1 r2 : ℝ) (hr1 : 0 ≤ r1) (hr2 : 0 ≤ r2) (hr1' : r1 ≤ (R1 : ℝ) + ρ) (hr2' : r2 ≤ (R2 : ℝ) + ρ) :
    (r1 + r2) ^ 2 ≤ ((cdist2 axes P Q : ℚ) : ℝ) := by
  by_contra hcon
  push Not at hcon
  set T : ℚ := R1 + R2 + 2 * ρ with hT
  have hT0 : 0 ≤ T := by positivity
  have hlt : cdist2 axes P Q < T ^ 2 := by
    have : ((cdist2 axes P Q : ℚ) : ℝ) < ((T ^ 2 : ℚ) : ℝ) := by
      refine lt_of_lt_of_le hcon ?_
      push_cast
      have : r1 + r2 ≤ (T : ℝ) := by rw [hT]; push_cast; linarith
      exact pow_le_pow_left₀ (by linarith) this 2
    exact_mod_cast this
  -- the position errors
  choose! m1 hm1 using hP
  choose! m2 hm2 using hQ
  set e1 : ℕ → ℚ := fun a => P.getD a 0 - (m1 a : ℚ) * (axes.getD a default).length - p.getD a 0 with he1
  set e2 : ℕ → ℚ := fun a => Q.getD a 0 - (m2 a : ℚ) * (axes.getD a default).length - q.getD a 0 with he2
  have hax : ∀ a ∈ Finset.range axes.length, cdiff axes p q a ^ 2 ≤ (cdiff axes P Q a + (-(e1 a)) + e2 a) ^ 2 := by
    intro a ha
    have ha' := Finset.mem_range.mp ha
    have hL := length_pos _ (axis_wf axes p hp ha')
    unfold cdiff
    by_cases hper : (axes.getD a default).periodic = true
    · rw [if_pos hper, if_pos hper]
      obtain ⟨k, hk⟩ := wrapDiff_congr (axes.getD a default).length (P.getD a 0 - Q.getD a 0)
      apply wrapDiff_min _ _ _ hL (- k + m1 a - m2 a)
      rw [hk, he1, he2]; push_cast; ring
    · rw [if_neg hper, if_neg hper]
      have hper' : (axes.getD a default).periodic = false := by simpa using hper
      have z1 := (hm1 a ha').1 hper'
      have z2 := (hm2 a ha').1 hper'
      apply le_of_eq
      rw [he1, he2]; simp only [z1, z2]; push_cast; ring
  have hle : cdist2 axes p q ≤ ∑ a ∈ Finset.range axes.length, (cdiff axes P Q a + (-(e1 a)) + e2 a) ^ 2 := Finset.sum_le_sum hax
  have hesum : ∀ (e : ℕ → ℚ), (∀ a, a < axes.length → |e a| < (axes.getD a default).dx / 2) →
      ∑ a ∈ Finset.range axes.length, e a ^ 2 ≤ ρ ^ 2 := by
    intro e he
    refine le_trans (Finset.sum_le_sum fun a ha => ?_) hdiag
    have := he a (Finset.mem_range.mp ha)
    have habs := abs_lt.mp this
    nlinarith
  have hmk := minkowski3 (Finset.range axes.length) (fun a => cdiff axes P Q a) (fun a => -(e1 a)) e2 T ρ ρ hT0 hρ hρ hlt
    (by
      have : ∑ a ∈ Finset.range axes.length, (-(e1 a)) ^ 2 = ∑ a ∈ Finset.range axes.length, e1 a ^ 2 :=
        Finset.sum_congr rfl fun a _ => by ring
      rw [this]; exact hesum e1 (fun a ha => (hm1 a ha).2))
    (hesum e2 (fun a ha => (hm2 a ha).2))
  have : (R1 + R2 + 4 * ρ) ^ 2 < (T + ρ + ρ) ^ 2 := lt_of_le_of_lt (le_trans hsep hle) hmk
  rw [hT] at this
  nlinarith


theorem halfDiag_le (d : ℕ) (hd : axes.length = d) (ρ : ℚ) (hρ : 0 ≤ ρ)
    (hdiag : ∑ a ∈ Finset.range axes.length, ((axes.getD a default).dx / 2) ^ 2 ≤ ρ ^ 2) :
    halfDiag (fun a : Fin d => (((axes.getD a default).dx : ℚ) : ℝ)) ≤ (ρ : ℝ) := by
  unfold halfDiag
  rw [EuclideanSpace.norm_eq]
  have hρr : (0 : ℝ) ≤ ρ := by exact_mod_cast hρ
  rw [← Real.sqrt_sq hρr]
  apply Real.sqrt_le_sqrt
  have : ∑ a : Fin d, ‖(toLp 2 (fun a : Fin d => (((axes.getD a default).dx : ℚ) : ℝ) / 2) : EuclideanSpace ℝ (Fin d)) a‖ ^ 2
      = ((∑ a ∈ Finset.range axes.length, ((axes.getD a default).dx / 2) ^ 2 : ℚ) : ℝ) := by
    rw [hd, ← Fin.sum_univ_eq_sum_range (fun a => ((axes.getD a default).dx / 2) ^ 2) d]
    push_cast
    apply Finset.sum_congr rfl
    intro a _
    rw [Real.norm_eq_abs, sq_abs]
  rw [this]
  have : ((ρ ^ 2 : ℚ) : ℝ) = (ρ : ℝ) ^ 2 := by push_cast; ring
  rw [← this]
  exact_mod_cast hdiag

/-- **The located (equal-volume) radius of a droplet exceeds its radius by at most half a cell diagonal**, in 1, 2 and 3
dimensions: the covered cells are disjoint boxes inside the ball of radius `R + ρ` (packing bound, Lebesgue measure), and
`radius_from_volume` (regenerated from the code) is monotone. -/
theorem located_radius_le (h : GridWF axes ctr) (R : ℚ) (hR : 0 ≤ R) (ρ : ℚ) (hρ : 0 ≤ ρ)
    (hdiag : ∑ a ∈ Finset.range axes.length, ((axes.getD a default).dx / 2) ^ 2 ≤ ρ ^ 2)
    (hd : axes.length = 1 ∨ axes.length = 2 ∨ axes.length = 3) :
    ∃ r : ℝ, Gen.radius_from_volume
        ((((Finset.range (numCells (shapeOf axes))).filter fun c => ballMask axes ctr R c = true).card : ℝ)
          * ∏ a ∈ Finset.range axes.length, (((axes.getD a default).dx : ℚ) : ℝ)) axes.length = .ok r ∧
      0 ≤ r ∧ r ≤ (R : ℝ) + ρ := by
  have hRr : (0 : ℝ) ≤ R := by exact_mod_cast hR
  have hρr : (0 : ℝ) ≤ ρ := by exact_mod_cast hρ
  have hh : ∀ (d : ℕ) (hdd : axes.length = d) (a : Fin d), 0 < (((axes.getD a default).dx : ℚ) : ℝ) := by
    intro d hdd a
    have := (axis_wf axes ctr h (k := a) (by omega)).dx_pos
    exact_mod_cast this
  have hprod : ∀ (d : ℕ) (hdd : axes.length = d), ∏ a : Fin d, (((axes.getD a default).dx : ℚ) : ℝ)
      = ∏ a ∈ Finset.range axes.length, (((axes.getD a default).dx : ℚ) : ℝ) := by
    intro d hdd
    rw [hdd, ← Fin.prod_univ_eq_prod_range (fun a => (((axes.getD a default).dx : ℚ) : ℝ)) d]
  have hV0 : ∀ N : ℕ, 0 ≤ (N : ℝ) * ∏ a ∈ Finset.range axes.length, (((axes.getD a default).dx : ℚ) : ℝ) := by
    intro N
    apply mul_nonneg (Nat.cast_nonneg _)
    apply Finset.prod_nonneg
    intro a ha
    have := (axis_wf axes ctr h (k := a) (Finset.mem_range.mp ha)).dx_pos
    exact_mod_cast this.le
  have hV := hV0 ((Finset.range (numCells (shapeOf axes))).filter fun c => ballMask axes ctr R c = true).card
  rcases hd with hd | hd | hd
  · obtain ⟨T, hTc, hTS⟩ := covered_as_lattice axes ctr h R hR 1 hd
    have hb := card_vol_le_one T _ _ _ (hh 1 hd) R hRr hTS
    have hhd := halfDiag_le axes 1 hd ρ hρ hdiag
    rw [hTc, hprod 1 hd] at hb
    rw [hd]
    rw [hd] at hb
    exact radius_from_volume_le_one _ _ (by rwa [hd] at hV) (by linarith)
  · obtain ⟨T, hTc, hTS⟩ := covered_as_lattice axes ctr h R hR 2 hd
    have hb := card_vol_le_two T _ _ _ (hh 2 hd) R hRr hTS
    have hhd := halfDiag_le axes 2 hd ρ hρ hdiag
    rw [hTc, hprod 2 hd] at hb
    rw [hd]
    rw [hd] at hb
    refine radius_from_volume_le_two _ _ (by rwa [hd] at hV) (by linarith) (le_trans hb ?_)
    have : (R : ℝ) + halfDiag (fun a : Fin 2 => (((axes.getD a default).dx : ℚ) : ℝ)) ≤ R + ρ := by linarith
    have h0 : 0 ≤ (R : ℝ) + halfDiag (fun a : Fin 2 => (((axes.getD a default).dx : ℚ) : ℝ)) := add_nonneg hRr (halfDiag_nonneg _)
    have := pow_le_pow_left₀ h0 this 2
    nlinarith [Real.pi_pos]
  · obtain ⟨T, hTc, hTS⟩ := covered_as_lattice axes ctr h R hR 3 hd
    have hb := card_vol_le_three T _ _ _ (hh 3 hd) R hRr hTS
    have hhd := halfDiag_le axes 3 hd ρ hρ hdiag
    rw [hTc, hprod 3 hd] at hb
    rw [hd]
    rw [hd] at hb
    refine radius_from_volume_le_three _ _ (by rwa [hd] at hV) (by linarith) (le_trans hb ?_)
    have : (R : ℝ) + halfDiag (fun a : Fin 3 => (((axes.getD a default).dx : ℚ) : ℝ)) ≤ R + ρ := by linarith
    have h0 : 0 ≤ (R : ℝ) + halfDiag (fun a : Fin 3 => (((axes.getD a default).dx : ℚ) : ℝ)) := add_nonneg hRr (halfDiag_nonneg _)
    have := pow_le_pow_left₀ h0 this 3
    nlinarith [Real.pi_pos]


theorem range_map_getD (n : ℕ) (f : ℕ → ℚ) {a : ℕ} (ha : a < n) : ((List.range n).map f).getD a 0 = f a := by
  rw [List.getD_eq_getElem?_getD, List.getElem?_map, List.getElem?_range ha]; rfl

/-- **C01, last step: the overlap filter has nothing to remove.**  Any number of droplets on a well-formed Cartesian grid in
1–3 dimensions (anisotropic spacing, any periodicity), each resolved, with centres pairwise at least `Rᵢ + Rⱼ + 4ρ` apart
under the grid's periodic metric (`ρ` ≥ half the cell diagonal): the droplets LOCATED by the model pipeline — position
from the merge loop, radius = `radius_from_volume` (regenerated from the code) of the cluster's volume — are spheres that do
not overlap under the periodic metric: `(rᵢ + rⱼ)² ≤ dist²(posᵢ, posⱼ)`, i.e. every entry of the surface-distance matrix
is ≥ 0, so `remove_overlapping` returns the emulsion unchanged (`DV.C10.loop_noop`) and exactly one droplet per original
is returned. -/
theorem C01_located_spheres_disjoint (balls : List (List ℚ × ℚ)) (hwf : ∀ b ∈ balls, GridWF axes b.1)
    (hd3 : axes.length = 1 ∨ axes.length = 2 ∨ axes.length = 3) (ρ : ℚ) (hρ : 0 ≤ ρ)
    (hdiag : ∑ a ∈ Finset.range axes.length, ((axes.getD a default).dx / 2) ^ 2 ≤ ρ ^ 2)
    (hdist : ∀ b1 ∈ balls, ∀ b2 ∈ balls, b1 ≠ b2 → (b1.2 + b2.2 + 4 * ρ) ^ 2 ≤ cdist2 axes b1.1 b2.1)
    (hres : ∀ b ∈ balls, FullyResolved axes b.1 b.2)
    (b1 b2 : List ℚ × ℚ) (hb1 : b1 ∈ balls) (hb2 : b2 ∈ balls) (hne : b1 ≠ b2)
    (c1 c2 : ℕ) (hc1 : ballMask axes b1.1 b1.2 c1 = true) (hc2 : ballMask axes b2.1 b2.2 c2 = true) :
    let mask := emulsionMask axes balls
    let L := labelFn (shapeOf axes) mask
    let cells := List.range (numCells (shapeOf axes))
    let st := mergeLoop (fun a => (shapeOf axes).getD a 1) L (initSt (coordOf (shapeOf axes)) L cells)
      (edgesOf (shapeOf axes) (perOf axes))
    let pos := fun c0 : ℕ => (List.range axes.length).map fun a =>
      (axes.getD a default).lo + (axes.getD a default).dx * st.pos (st.lab c0) a
    let cellVol : ℝ := ∏ a ∈ Finset.range axes.length, (((axes.getD a default).dx : ℚ) : ℝ)
    ∃ r1 r2 : ℝ, Gen.radius_from_volume (((st.vol (st.lab c1) : ℚ) : ℝ) * cellVol) axes.length = .ok r1 ∧
      Gen.radius_from_volume (((st.vol (st.lab c2) : ℚ) : ℝ) * cellVol) axes.length = .ok r2 ∧
      0 ≤ r1 ∧ 0 ≤ r2 ∧ (r1 + r2) ^ 2 ≤ ((cdist2 axes (pos c1) (pos c2) : ℚ) : ℝ) := by
  intro mask L cells st pos cellVol
  have hd : 0 < axes.length := by omega
  have hR : ∀ b ∈ balls, 0 ≤ b.2 := fun b hb => (hres b hb 0 hd).nonneg
  -- every cell size is at most 2ρ
  have hh : ∀ a ∈ axes, a.dx ≤ 2 * ρ := by
    intro a ha
    obtain ⟨k, hk, rfl⟩ := List.getElem_of_mem ha
    have hdx := (hwf b1 hb1).wf _ (List.getElem_mem hk)
    have hterm : (axes[k].dx / 2) ^ 2 ≤ ρ ^ 2 := by
      refine le_trans ?_ hdiag
      have : (axes[k].dx / 2) ^ 2 = ((axes.getD k default).dx / 2) ^ 2 := by
        rw [List.getD_eq_getElem?_getD, List.getElem?_eq_getElem hk]; rfl
      rw [this]
      exact Finset.single_le_sum (f := fun a => ((axes.getD a default).dx / 2) ^ 2) (fun a _ => sq_nonneg _) (Finset.mem_range.mpr hk)
    have := abs_le_of_sq_le_sq' hterm hρ
    linarith [this.2, hdx.dx_pos]
  have hdist' : ∀ b1 ∈ balls, ∀ b2 ∈ balls, b1 ≠ b2 → (b1.2 + b2.2 + 2 * ρ) ^ 2 ≤ cdist2 axes b1.1 b2.1 := by
    intro x hx y hy hxy
    refine le_trans ?_ (hdist x hx y hy hxy)
    have := hR x hx; have := hR y hy
    apply pow_le_pow_left₀ (by positivity)
    linarith
  have hsep := separated_of_distances axes balls hwf hR (2 * ρ) hh (by positivity) hdist'
  obtain ⟨_, hv1, m1, hm10, hm1⟩ := emulsion_droplet_located axes balls hwf hsep hd b1 hb1 (hres b1 hb1) c1 hc1
  obtain ⟨_, hv2, m2, hm20, hm2⟩ := emulsion_droplet_located axes balls hwf hsep hd b2 hb2 (hres b2 hb2) c2 hc2
  obtain ⟨r1, hr1, hr10, hr1le⟩ := located_radius_le axes b1.1 (hwf b1 hb1) b1.2 (hR b1 hb1) ρ hρ hdiag hd3
  obtain ⟨r2, hr2, hr20, hr2le⟩ := located_radius_le axes b2.1 (hwf b2 hb2) b2.2 (hR b2 hb2) ρ hρ hdiag hd3
  refine ⟨r1, r2, ?_, ?_, hr10, hr20, ?_⟩
  · show Gen.radius_from_volume (((st.vol (st.lab c1) : ℚ) : ℝ) * cellVol) axes.length = .ok r1
    rw [hv1]; push_cast; exact hr1
  · show Gen.radius_from_volume (((st.vol (st.lab c2) : ℚ) : ℝ) * cellVol) axes.length = .ok r2
    rw [hv2]; push_cast; exact hr2
  · apply located_spheres_disjoint axes (hwf b1 hb1) b1.2 b2.2 ρ (hR b1 hb1) (hR b2 hb2) hρ hdiag (hdist b1 hb1 b2 hb2 hne)
      (pos c1) (pos c2) _ _ r1 r2 hr10 hr20 hr1le hr2le
    · intro a ha
      refine ⟨m1 a, hm10 a ha, ?_⟩
      rw [range_map_getD axes.length _ ha]
      exact hm1 a ha
    · intro a ha
      refine ⟨m2 a, hm20 a ha, ?_⟩
      rw [range_map_getD axes.length _ ha]
      exact hm2 a ha

end DV.C01

namespace DV.C01
open DV.Render DV.BallConn
/-- non-vacuity of the separation hypotheses of `C01_located_spheres_disjoint`: the two droplets of radius 3/2 at (3,3)
and (9,9) on the 12×12 periodic unit grid, ρ = 3/4 ≥ √2/2 -/
example : ∑ a ∈ Finset.range axes12.length, ((axes12.getD a default).dx / 2) ^ 2 ≤ ((3 : ℚ) / 4) ^ 2 := by decide +kernel
example : ((3/2 : ℚ) + 3/2 + 4 * (3/4)) ^ 2 ≤ cdist2 axes12 [3, 3] [9, 9] := by decide +kernel
end DV.C01

/-! ### two-sided bound on the located radius (covering bound) -/


namespace DV.C01
open DV

theorem radius_from_volume_ge_three (V ρ : ℝ) (hρ : 0 ≤ ρ) (h : ρ ^ 3 * (Real.pi * 4 / 3) ≤ V) :
    ∃ r, Gen.radius_from_volume V 3 = .ok r ∧ ρ ≤ r := by
  refine ⟨(3 * V / (4 * Real.pi)) ^ ((1 : ℝ) / 3), by simp [Gen.radius_from_volume], ?_⟩
  have hpi := Real.pi_pos
  have h1 : ρ ^ 3 ≤ 3 * V / (4 * Real.pi) := by
    rw [le_div_iff₀ (by positivity)]
    nlinarith
  calc ρ = (ρ ^ 3) ^ ((1 : ℝ) / 3) := by
        rw [one_div]
        exact_mod_cast (Real.pow_rpow_inv_natCast hρ (by norm_num : (3 : ℕ) ≠ 0)).symm
    _ ≤ (3 * V / (4 * Real.pi)) ^ ((1 : ℝ) / 3) := Real.rpow_le_rpow (by positivity) h1 (by norm_num)

theorem radius_from_volume_ge_two (V ρ : ℝ) (hρ : 0 ≤ ρ) (h : ρ ^ 2 * Real.pi ≤ V) :
    ∃ r, Gen.radius_from_volume V 2 = .ok r ∧ ρ ≤ r := by
  refine ⟨Real.sqrt (V / Real.pi), by simp [Gen.radius_from_volume], ?_⟩
  have hpi := Real.pi_pos
  have h1 : ρ ^ 2 ≤ V / Real.pi := by rw [le_div_iff₀ hpi]; exact h
  calc ρ = Real.sqrt (ρ ^ 2) := (Real.sqrt_sq hρ).symm
    _ ≤ Real.sqrt (V / Real.pi) := Real.sqrt_le_sqrt h1

theorem radius_from_volume_ge_one (V ρ : ℝ) (h : 2 * ρ ≤ V) :
    ∃ r, Gen.radius_from_volume V 1 = .ok r ∧ ρ ≤ r := by
  refine ⟨V / 2, by simp [Gen.radius_from_volume], by linarith⟩

end DV.C01


namespace DV.C01
open Finset BigOperators DV.Merge DV.MergeInv DV.Label DV.LabelInv DV.GridGeom DV.Render DV.BallConn DV.WrapDiff DV.C02

/-- folding a lattice index into the box along one axis: the cell `n mod N` has periodic difference equal to the unwrapped
offset of lattice point `n`, and unwrapping it gives `n` back -/
theorem axis_fold (a : Axis) (hwf : Axis.WF a) (c ρ : ℚ) (hres : AxisResolved a c ρ) (n : ℤ)
    (hδ : |a.lo + ((n : ℚ) + 1 / 2) * a.dx - c| < ρ) :
    let k := (n % (a.n : ℤ)).toNat
    k < a.n ∧ a.diff c k = a.lo + ((n : ℚ) + 1 / 2) * a.dx - c ∧
      (k : ℤ) - (if a.periodic then ((a.centre k - c + a.length / 2) / a.length).floor else 0) * (a.n : ℤ) = n := by
  intro k
  have hN : (0 : ℤ) < a.n := by exact_mod_cast hwf.n_pos
  have hdx := hwf.dx_pos
  have hL := length_pos a hwf
  have hLn : a.length = a.dx * a.n := rfl
  have hk0 : 0 ≤ n % (a.n : ℤ) := Int.emod_nonneg _ (ne_of_gt hN)
  have hk1 : n % (a.n : ℤ) < a.n := Int.emod_lt_of_pos _ hN
  have hkz : (k : ℤ) = n % (a.n : ℤ) := Int.toNat_of_nonneg hk0
  have hklt : k < a.n := by
    have : (k : ℤ) < a.n := by rw [hkz]; exact hk1
    exact_mod_cast this
  set q := n / (a.n : ℤ) with hq
  have hdecomp : n = (k : ℤ) + q * (a.n : ℤ) := by
    rw [hkz, hq]; have := Int.emod_add_mul_ediv n (a.n : ℤ); linarith
  have hnq : (n : ℚ) = (k : ℚ) + (q : ℚ) * (a.n : ℚ) := by exact_mod_cast hdecomp
  have hcen : a.centre k - c = (a.lo + ((n : ℚ) + 1 / 2) * a.dx - c) - (q : ℚ) * a.length := by
    unfold Axis.centre; rw [hnq, hLn]; ring
  obtain ⟨hd1, hd2⟩ := abs_lt.mp hδ
  by_cases hper : a.periodic = true
  · have hρL : 2 * (ρ + a.dx) ≤ a.length := hres.per hper
    set δ := a.lo + ((n : ℚ) + 1 / 2) * a.dx - c with hδdef
    have hw : wrapDiff a.length (a.centre k - c) = δ := by
      apply wrapDiff_unique a.length (a.centre k - c) δ hL (-q)
      · rw [hcen]; push_cast; ring
      · linarith
      · linarith
    have hfl : ((a.centre k - c + a.length / 2) / a.length).floor = -q := by
      have hfl' : ∀ x : ℚ, x.floor = ⌊x⌋ := fun _ => rfl
      rw [hfl', Int.floor_eq_iff]
      rw [hcen]
      constructor
      · rw [le_div_iff₀ hL]; push_cast; nlinarith
      · rw [div_lt_iff₀ hL]; push_cast; nlinarith
    refine ⟨hklt, ?_, ?_⟩
    · unfold Axis.diff; rw [if_pos hper]; exact hw
    · rw [if_pos hper, hfl, hdecomp]; ring
  · have hper' : a.periodic = false := by simpa using hper
    obtain ⟨hb1, hb2⟩ := hres.box hper'
    -- 0 ≤ n < N
    have hn0 : 0 ≤ n := by
      by_contra hneg
      have : (n : ℚ) ≤ -1 := by exact_mod_cast (by omega : n ≤ -1)
      nlinarith
    have hn1 : n < a.n := by
      by_contra hge
      have : ((a.n : ℤ) : ℚ) ≤ n := by exact_mod_cast (by omega : (a.n : ℤ) ≤ n)
      push_cast at this
      rw [hLn] at hb2
      nlinarith
    have hkn : (k : ℤ) = n := by rw [hkz]; exact Int.emod_eq_of_lt hn0 hn1
    have hknq : (k : ℚ) = (n : ℚ) := by exact_mod_cast hkn
    refine ⟨hklt, ?_, ?_⟩
    · unfold Axis.diff Axis.centre; simp only [hper', Bool.false_eq_true, if_false]; rw [hknq]
    · simp only [hper', Bool.false_eq_true, if_false]; rw [hkn]; ring


theorem valid_of_getD : ∀ (idx shape : List ℕ), idx.length = shape.length →
    (∀ a, a < shape.length → idx.getD a 0 < shape.getD a 1) → Valid idx shape
  | [], [], _, _ => trivial
  | [], _ :: _, h, _ => by simp at h
  | _ :: _, [], h, _ => by simp at h
  | i :: is, n :: ns, h, hlt => by
    refine ⟨by simpa using hlt 0 (by simp), valid_of_getD is ns (by simpa using h) ?_⟩
    intro a ha
    simpa using hlt (a + 1) (by simpa using ha)

variable (axes : List Axis) (ctr : List ℚ)

/-- **Every lattice point within `R` of the centre of a resolved droplet is (the unwrapped position of) a covered cell.** -/
theorem lattice_point_is_covered (h : GridWF axes ctr) (R : ℚ) (hres : FullyResolved axes ctr R) (nn : ℕ → ℤ)
    (hsum : ∑ a ∈ Finset.range axes.length,
      ((axes.getD a default).lo + ((nn a : ℚ) + 1 / 2) * (axes.getD a default).dx - ctr.getD a 0) ^ 2 < R ^ 2) :
    ∃ c, c < numCells (shapeOf axes) ∧ ballMask axes ctr R c = true ∧
      ∀ a, a < axes.length → latticeIdx axes ctr c a = nn a := by
  set δ : ℕ → ℚ := fun a => (axes.getD a default).lo + ((nn a : ℚ) + 1 / 2) * (axes.getD a default).dx - ctr.getD a 0 with hδ
  have hposs := shape_pos axes ctr h
  -- every component is smaller than R
  have hcomp : ∀ a, a < axes.length → |δ a| < R := by
    intro a ha
    have hR0 : 0 ≤ R := (hres a ha).nonneg
    have h1 : δ a ^ 2 ≤ ∑ b ∈ Finset.range axes.length, δ b ^ 2 :=
      Finset.single_le_sum (f := fun b => δ b ^ 2) (fun b _ => sq_nonneg _) (Finset.mem_range.mpr ha)
    have h2 : δ a ^ 2 < R ^ 2 := lt_of_le_of_lt h1 hsum
    exact abs_lt_of_sq_lt_sq h2 hR0
  have hfold : ∀ a, a < axes.length →
      let ax := axes.getD a default
      let k := (nn a % (ax.n : ℤ)).toNat
      k < ax.n ∧ ax.diff (ctr.getD a 0) k = δ a ∧
        (k : ℤ) - (if ax.periodic then ((ax.centre k - ctr.getD a 0 + ax.length / 2) / ax.length).floor else 0) * (ax.n : ℤ) = nn a :=
    fun a ha => axis_fold (axes.getD a default) (axis_wf axes ctr h ha) (ctr.getD a 0) R (hres a ha) (nn a) (hcomp a ha)
  set idx : List ℕ := (List.range axes.length).map fun a => (nn a % ((axes.getD a default).n : ℤ)).toNat with hidx
  have hidxg : ∀ a, a < axes.length → idx.getD a 0 = (nn a % ((axes.getD a default).n : ℤ)).toNat := by
    intro a ha
    rw [hidx, List.getD_eq_getElem?_getD, List.getElem?_map, List.getElem?_range ha]; rfl
  have hshl : (shapeOf axes).length = axes.length := by unfold shapeOf; simp
  have hvalid : Valid idx (shapeOf axes) := by
    apply valid_of_getD
    · rw [hidx, hshl]; simp
    · intro a ha
      rw [hshl] at ha
      rw [hidxg a ha, shape_getD axes ha]
      exact (hfold a ha).1
  set c := flat idx (shapeOf axes) with hc
  have hclt : c < numCells (shapeOf axes) := flat_lt hvalid
  have hunf : unflat (shapeOf axes) c = idx := unflat_flat hvalid
  have hcoord : ∀ a, a < axes.length → coordOf (shapeOf axes) c a = (nn a % ((axes.getD a default).n : ℤ)).toNat := by
    intro a ha
    unfold coordOf; rw [hunf, hidxg a ha]
  have hU : ∀ a, a < axes.length → U axes ctr c a = δ a := by
    intro a ha
    rw [U_eq, hcoord a ha]
    exact (hfold a ha).2.1
  refine ⟨c, hclt, ?_, ?_⟩
  · rw [ballMask_iff]
    refine ⟨hclt, ?_⟩
    rw [D_eq_sum axes h c, Finset.sum_congr rfl (fun a ha => by rw [hU a (Finset.mem_range.mp ha)])]
    have : R * R = R ^ 2 := by ring
    rw [this]; exact hsum
  · intro a ha
    unfold latticeIdx wrapCount
    simp only
    rw [hcoord a ha]
    exact (hfold a ha).2.2


open DV.Lattice WithLp in
/-- the covered cells as a set of lattice points (unwrapped around the droplet) -/
noncomputable def latticeSet (R : ℚ) (d : ℕ) : Finset (Fin d → ℤ) :=
  ((Finset.range (numCells (shapeOf axes))).filter fun c => ballMask axes ctr R c = true).image
    fun c => fun a : Fin d => latticeIdx axes ctr c a

open DV.Lattice WithLp in
theorem norm_sq_eq_sum (d : ℕ) (hd : axes.length = d) (nn : ℕ → ℤ) :
    ‖(toLp 2 (centre (fun a : Fin d => (((axes.getD a default).lo : ℚ) : ℝ)) (fun a : Fin d => (((axes.getD a default).dx : ℚ) : ℝ))
        (fun a : Fin d => nn a)) : EuclideanSpace ℝ (Fin d)) - toLp 2 (fun a : Fin d => ((ctr.getD a 0 : ℚ) : ℝ))‖ ^ 2
      = ((∑ a ∈ Finset.range axes.length,
          ((axes.getD a default).lo + ((nn a : ℚ) + 1 / 2) * (axes.getD a default).dx - ctr.getD a 0) ^ 2 : ℚ) : ℝ) := by
  rw [EuclideanSpace.norm_eq, Real.sq_sqrt (Finset.sum_nonneg fun a _ => sq_nonneg _)]
  rw [hd, ← Fin.sum_univ_eq_sum_range (fun a => ((axes.getD a default).lo + ((nn a : ℚ) + 1 / 2) * (axes.getD a default).dx - ctr.getD a 0) ^ 2) d]
  push_cast
  apply Finset.sum_congr rfl
  intro a _
  rw [Real.norm_eq_abs, sq_abs]
  simp only [PiLp.sub_apply, centre]

open DV.Lattice WithLp in
/-- the lattice set contains EVERY lattice point within `R` of the centre (resolved droplet) -/
theorem latticeSet_complete (h : GridWF axes ctr) (R : ℚ) (hres : FullyResolved axes ctr R) (d : ℕ) (hd : axes.length = d)
    (hd0 : 0 < axes.length) (n : Fin d → ℤ)
    (hn : ‖(toLp 2 (centre (fun a : Fin d => (((axes.getD a default).lo : ℚ) : ℝ)) (fun a : Fin d => (((axes.getD a default).dx : ℚ) : ℝ)) n)
          : EuclideanSpace ℝ (Fin d)) - toLp 2 (fun a : Fin d => ((ctr.getD a 0 : ℚ) : ℝ))‖ < (R : ℝ)) :
    n ∈ latticeSet axes ctr R d := by
  set nn : ℕ → ℤ := fun a => if ha : a < d then n ⟨a, ha⟩ else 0 with hnn
  have hnfun : (fun a : Fin d => nn a) = n := by
    funext a; simp [hnn, a.2]
  have hR0 : (0 : ℝ) ≤ R := by exact_mod_cast (hres 0 hd0).nonneg
  have hsq : ‖(toLp 2 (centre (fun a : Fin d => (((axes.getD a default).lo : ℚ) : ℝ)) (fun a : Fin d => (((axes.getD a default).dx : ℚ) : ℝ)) n)
          : EuclideanSpace ℝ (Fin d)) - toLp 2 (fun a : Fin d => ((ctr.getD a 0 : ℚ) : ℝ))‖ ^ 2 < (R : ℝ) ^ 2 :=
    pow_lt_pow_left₀ hn (norm_nonneg _) (by norm_num)
  rw [← hnfun, norm_sq_eq_sum axes ctr d hd nn] at hsq
  have hsum : ∑ a ∈ Finset.range axes.length,
      ((axes.getD a default).lo + ((nn a : ℚ) + 1 / 2) * (axes.getD a default).dx - ctr.getD a 0) ^ 2 < R ^ 2 := by
    have : ((R ^ 2 : ℚ) : ℝ) = (R : ℝ) ^ 2 := by push_cast; ring
    rw [← this] at hsq
    exact_mod_cast hsq
  obtain ⟨c, hclt, hcm, hci⟩ := lattice_point_is_covered axes ctr h R hres nn hsum
  unfold latticeSet
  apply Finset.mem_image.mpr
  refine ⟨c, Finset.mem_filter.mpr ⟨Finset.mem_range.mpr hclt, hcm⟩, ?_⟩
  funext a
  rw [hci a (by omega)]
  simp [hnn, a.2]

theorem latticeSet_card (h : GridWF axes ctr) (R : ℚ) (d : ℕ) (hd : axes.length = d) :
    (latticeSet axes ctr R d).card = ((Finset.range (numCells (shapeOf axes))).filter fun c => ballMask axes ctr R c = true).card := by
  unfold latticeSet
  apply Finset.card_image_of_injOn
  intro c hc c' hc' heq
  have m1 := (ballMask_iff axes ctr R c).mp (Finset.mem_filter.mp hc).2
  have m2 := (ballMask_iff axes ctr R c').mp (Finset.mem_filter.mp hc').2
  apply latticeIdx_inj axes ctr h m1.1 m2.1
  intro a ha
  have := congrFun heq ⟨a, by omega⟩
  simpa using this


open DV.Lattice WithLp in
/-- **Lower bound: the located radius of a resolved droplet is at least `R − ρ`** (ρ ≥ half the cell diagonal): the ball of radius
`R − ρ` is covered by the boxes of the covered cells (covering bound), and `radius_from_volume` is monotone. -/
theorem located_radius_ge (h : GridWF axes ctr) (R : ℚ) (hres : FullyResolved axes ctr R) (ρ : ℚ) (hρ : 0 ≤ ρ)
    (hdiag : ∑ a ∈ Finset.range axes.length, ((axes.getD a default).dx / 2) ^ 2 ≤ ρ ^ 2)
    (hd : axes.length = 1 ∨ axes.length = 2 ∨ axes.length = 3) :
    ∃ r : ℝ, Gen.radius_from_volume
        ((((Finset.range (numCells (shapeOf axes))).filter fun c => ballMask axes ctr R c = true).card : ℝ)
          * ∏ a ∈ Finset.range axes.length, (((axes.getD a default).dx : ℚ) : ℝ)) axes.length = .ok r ∧
      (R : ℝ) - ρ ≤ r := by
  have hd0 : 0 < axes.length := by omega
  have hρr : (0 : ℝ) ≤ ρ := by exact_mod_cast hρ
  have hh : ∀ (d : ℕ) (hdd : axes.length = d) (a : Fin d), 0 < (((axes.getD a default).dx : ℚ) : ℝ) := by
    intro d hdd a
    have := (axis_wf axes ctr h (k := a) (by omega)).dx_pos
    exact_mod_cast this
  have hprod : ∀ (d : ℕ) (hdd : axes.length = d), ∏ a : Fin d, (((axes.getD a default).dx : ℚ) : ℝ)
      = ∏ a ∈ Finset.range axes.length, (((axes.getD a default).dx : ℚ) : ℝ) := by
    intro d hdd
    rw [hdd, ← Fin.prod_univ_eq_prod_range (fun a => (((axes.getD a default).dx : ℚ) : ℝ)) d]
  -- a radius exists in any case; if R - ρ < 0 there is nothing to show beyond r ≥ 0
  have hV0 : 0 ≤ ((((Finset.range (numCells (shapeOf axes))).filter fun c => ballMask axes ctr R c = true).card : ℝ)
      * ∏ a ∈ Finset.range axes.length, (((axes.getD a default).dx : ℚ) : ℝ)) := by
    apply mul_nonneg (Nat.cast_nonneg _)
    apply Finset.prod_nonneg
    intro a ha
    have := (axis_wf axes ctr h (k := a) (Finset.mem_range.mp ha)).dx_pos
    exact_mod_cast this.le
  obtain ⟨V, hV⟩ : ∃ V : ℝ, V = ((((Finset.range (numCells (shapeOf axes))).filter fun c => ballMask axes ctr R c = true).card : ℝ)
      * ∏ a ∈ Finset.range axes.length, (((axes.getD a default).dx : ℚ) : ℝ)) := ⟨_, rfl⟩
  rw [← hV] at hV0 ⊢
  rcases hd with hd | hd | hd
  · have hhd := halfDiag_le axes 1 hd ρ hρ hdiag
    rw [hd]
    by_cases hneg : (R : ℝ) - halfDiag (fun a : Fin 1 => (((axes.getD a default).dx : ℚ) : ℝ)) < 0
    · obtain ⟨r, hr, hr0⟩ := radius_from_volume_ge_one V 0 (by simpa using hV0)
      exact ⟨r, hr, by linarith⟩
    · have hb := card_vol_ge_one (latticeSet axes ctr R 1) _ _ _ (hh 1 hd) R (by linarith)
        (fun n hn => latticeSet_complete axes ctr h R hres 1 hd hd0 n hn)
      rw [latticeSet_card axes ctr h R 1 hd, hprod 1 hd, ← hV] at hb
      obtain ⟨r, hr, hrge⟩ := radius_from_volume_ge_one V _ hb
      exact ⟨r, hr, by linarith⟩
  · have hhd := halfDiag_le axes 2 hd ρ hρ hdiag
    rw [hd]
    by_cases hneg : (R : ℝ) - halfDiag (fun a : Fin 2 => (((axes.getD a default).dx : ℚ) : ℝ)) < 0
    · obtain ⟨r, hr, hr0⟩ := radius_from_volume_ge_two V 0 le_rfl (by simpa using hV0)
      exact ⟨r, hr, by linarith⟩
    · have hb := card_vol_ge_two (latticeSet axes ctr R 2) _ _ _ (hh 2 hd) R (by linarith)
        (fun n hn => latticeSet_complete axes ctr h R hres 2 hd hd0 n hn)
      rw [latticeSet_card axes ctr h R 2 hd, hprod 2 hd, ← hV] at hb
      obtain ⟨r, hr, hrge⟩ := radius_from_volume_ge_two V _ (by linarith) hb
      exact ⟨r, hr, by linarith⟩
  · have hhd := halfDiag_le axes 3 hd ρ hρ hdiag
    rw [hd]
    by_cases hneg : (R : ℝ) - halfDiag (fun a : Fin 3 => (((axes.getD a default).dx : ℚ) : ℝ)) < 0
    · obtain ⟨r, hr, hr0⟩ := radius_from_volume_ge_three V 0 le_rfl (by simpa using hV0)
      exact ⟨r, hr, by linarith⟩
    · have hb := card_vol_ge_three (latticeSet axes ctr R 3) _ _ _ (hh 3 hd) R (by linarith)
        (fun n hn => latticeSet_complete axes ctr h R hres 3 hd hd0 n hn)
      rw [latticeSet_card axes ctr h R 3 hd, hprod 3 hd, ← hV] at hb
      obtain ⟨r, hr, hrge⟩ := radius_from_volume_ge_three V _ (by linarith) hb
      exact ⟨r, hr, by linarith⟩

/-- **The located radius is within half a cell diagonal of the droplet's radius** (two-sided; 1–3 dimensions, resolved droplet):
together with the half-cell bound on the position this is the accuracy of the initial estimate that refinement (C05) starts from. -/
theorem located_radius_within (h : GridWF axes ctr) (R : ℚ) (hres : FullyResolved axes ctr R) (ρ : ℚ) (hρ : 0 ≤ ρ)
    (hdiag : ∑ a ∈ Finset.range axes.length, ((axes.getD a default).dx / 2) ^ 2 ≤ ρ ^ 2)
    (hd : axes.length = 1 ∨ axes.length = 2 ∨ axes.length = 3) :
    ∃ r : ℝ, Gen.radius_from_volume
        ((((Finset.range (numCells (shapeOf axes))).filter fun c => ballMask axes ctr R c = true).card : ℝ)
          * ∏ a ∈ Finset.range axes.length, (((axes.getD a default).dx : ℚ) : ℝ)) axes.length = .ok r ∧
      |r - (R : ℝ)| ≤ ρ := by
  have hd0 : 0 < axes.length := by omega
  obtain ⟨r1, h1, _, hle⟩ := located_radius_le axes ctr h R (hres 0 hd0).nonneg ρ hρ hdiag hd
  obtain ⟨r2, h2, hge⟩ := located_radius_ge axes ctr h R hres ρ hρ hdiag hd
  have : r1 = r2 := by
    have := h1.symm.trans h2
    simpa using this
  subst this
  exact ⟨r1, h1, abs_le.mpr ⟨by linarith, by linarith⟩⟩

end DV.C01
