/-
  C01 — Locating a rendered emulsion returns each droplet once, with exact volume.
  The counting/merging/volume part is C02's (`mergeLoop_partition`, `mergeLoop_volume`,
  `C02_position_nonwinding`: one droplet per periodic component, volume = number of covered cells ×
  cell volume, position = centre of mass of the unwrapped component) applied to the rendering of C03
  (`inside`: the cells whose centres the droplet covers).  What is specific to C01 is proved here for
  ALL lattice placements, spacings, offsets and radii:

  * the centre of mass of the cell centres covered by a ball lies within HALF A CELL of the ball's
    centre, per axis, in any dimension and for anisotropic spacing (`lattice_run_mean`,
    `lattice_fibres_com`): the covered cells split into fibres along the axis, every fibre is the
    lattice run of a condition `(x − c)² < q` symmetric about `c`;
  * radial grids: the located radius is within half a radial spacing, and the sphere of that radius
    has exactly the volume of the covered shells (`C01_radial`, `shells_telescope`).
-/
import DropletsVerif.Lemmas.RealInst
import DropletsVerif.Generated.Spherical
import Mathlib.Tactic
import Mathlib.Algebra.BigOperators.Intervals

namespace DV.C01
open Finset BigOperators

section lattice
variable {K : Type} [Field K] [LinearOrder K] [IsStrictOrderedRing K]

/-- centre of cell `i` on an axis with origin `o` and spacing `h` -/
def cellCentre (o h : K) (i : ℤ) : K := o + ((i : K) + 1 / 2) * h

/-- the cells `a, a+1, …, a+n−1` (n ≥ 1) are exactly the lattice run of the condition
`(x − c)² < q`: both ends satisfy it, their outer neighbours do not -/
structure IsRun (o h c q : K) (a : ℤ) (n : ℕ) : Prop where
  pos : 0 < n
  first_in : (cellCentre o h a - c) ^ 2 < q
  last_in : (cellCentre o h (a + n - 1) - c) ^ 2 < q
  before_out : q ≤ (cellCentre o h (a - 1) - c) ^ 2
  after_out : q ≤ (cellCentre o h (a + n) - c) ^ 2

/-- sum of the offsets `x_i − c` over the run -/
def runSum (o h c : K) (a : ℤ) (n : ℕ) : K := ∑ j ∈ range n, (cellCentre o h (a + j) - c)

theorem runSum_eq (o h c : K) (a : ℤ) (n : ℕ) :
    runSum o h c a n = n * ((cellCentre o h a + cellCentre o h (a + n - 1)) / 2 - c) := by
  unfold runSum cellCentre
  induction n with
  | zero => simp
  | succ n ih =>
    rw [Finset.sum_range_succ, ih]
    push_cast
    ring

/-- **Half-cell lemma (one fibre).**  For any origin, spacing `h > 0`, centre `c` and threshold `q`:
the mean of the covered cell centres of a run differs from `c` by LESS than `h/2`. -/
theorem lattice_run_mean (o h c q : K) (hh : 0 < h) (a : ℤ) (n : ℕ) (hr : IsRun o h c q a n) :
    |runSum o h c a n| < n * (h / 2) := by
  rw [runSum_eq]
  have hn : (0 : K) < n := by exact_mod_cast hr.pos
  rw [abs_mul, abs_of_pos hn]
  apply mul_lt_mul_of_pos_left _ hn
  -- the two end points
  set xa := cellCentre o h a with hxa
  set xb := cellCentre o h (a + n - 1) with hxb
  have hxa1 : cellCentre o h (a - 1) = xa - h := by simp [cellCentre, hxa]; ring
  have hxb1 : cellCentre o h (a + n) = xb + h := by simp [cellCentre, hxb]; ring
  have h1 := hr.first_in
  have h2 := hr.last_in
  have h3 := hr.before_out
  have h4 := hr.after_out
  rw [hxa1] at h3
  rw [hxb1] at h4
  have hab : xa ≤ xb := by
    simp only [hxa, hxb, cellCentre]
    have : (0 : K) ≤ (n : K) - 1 := by
      have : (1 : K) ≤ n := by exact_mod_cast hr.pos
      linarith
    push_cast
    nlinarith
  rw [abs_lt]
  constructor
  · -- (xa + xb)/2 − c > −h/2, else the cell after the run would be inside
    by_contra hcon
    push_neg at hcon
    have hle : xb + h - c ≤ c - xa := by linarith
    by_cases hs : 0 ≤ xb + h - c
    · have : (xb + h - c) ^ 2 ≤ (c - xa) ^ 2 := by nlinarith
      have : (c - xa) ^ 2 = (xa - c) ^ 2 := by ring
      nlinarith
    · push_neg at hs
      have : (xb + h - c) ^ 2 < (xb - c) ^ 2 := by nlinarith
      nlinarith
  · by_contra hcon
    push_neg at hcon
    have hle : c - (xa - h) ≤ xb - c := by linarith
    by_cases hs : 0 ≤ c - (xa - h)
    · have : (xa - h - c) ^ 2 ≤ (xb - c) ^ 2 := by nlinarith
      nlinarith
    · push_neg at hs
      have : (xa - h - c) ^ 2 < (xa - c) ^ 2 := by nlinarith
      nlinarith

/-- **Half-cell bound for a ball in any dimension (one axis at a time, anisotropic spacing
allowed).**  The covered cells of a ball split into fibres along the axis under consideration; the
fibre over the other coordinates `t` is the lattice run of `(x − c)² < q_t` with
`q_t = R² − Σ_{other axes}(…)²`, whatever `q_t` is.  Then the sum of the offsets over ALL covered
cells is smaller than (number of covered cells) · h/2, i.e. the centre of mass lies within half a cell
of `c` along this axis. -/
theorem lattice_fibres_com {ι : Type} (s : Finset ι) (hs : s.Nonempty) (o h c : K) (hh : 0 < h)
    (q : ι → K) (a : ι → ℤ) (n : ι → ℕ) (hr : ∀ t ∈ s, IsRun o h c (q t) (a t) (n t)) :
    |∑ t ∈ s, runSum o h c (a t) (n t)| < (∑ t ∈ s, (n t : K)) * (h / 2) := by
  calc |∑ t ∈ s, runSum o h c (a t) (n t)| ≤ ∑ t ∈ s, |runSum o h c (a t) (n t)| := Finset.abs_sum_le_sum_abs _ _
    _ < ∑ t ∈ s, (n t : K) * (h / 2) :=
        Finset.sum_lt_sum_of_nonempty hs (fun t ht => lattice_run_mean o h c (q t) hh (a t) (n t) (hr t ht))
    _ = (∑ t ∈ s, (n t : K)) * (h / 2) := by rw [Finset.sum_mul]

/-- in the form the code uses it: centre of mass `= c + (Σ offsets)/N` with `|·| < h/2` -/
theorem lattice_com_within_half_cell {ι : Type} (s : Finset ι) (hs : s.Nonempty) (o h c : K) (hh : 0 < h)
    (q : ι → K) (a : ι → ℤ) (n : ι → ℕ) (hr : ∀ t ∈ s, IsRun o h c (q t) (a t) (n t)) :
    |(∑ t ∈ s, runSum o h c (a t) (n t)) / (∑ t ∈ s, (n t : K))| < h / 2 := by
  have hN : 0 < ∑ t ∈ s, (n t : K) :=
    Finset.sum_pos (fun t ht => by exact_mod_cast (hr t ht).pos) hs
  rw [abs_div, abs_of_pos hN, div_lt_iff₀ hN]
  have := lattice_fibres_com s hs o h c hh q a n hr
  linarith

/-- **Radial grids: the located radius is within half a radial spacing.**  The droplet of radius
`R` centred at the origin covers exactly the cells `0 … m−1` (cell `m−1` inside, cell `m` outside);
the code returns the outer edge `m·dr` of the last covered cell. -/
theorem C01_radial (dr R : K) (hdr : 0 < dr) (m : ℕ)
    (hin : m = 0 ∨ ((m : K) - 1 + 1 / 2) * dr < R) (hout : R ≤ ((m : K) + 1 / 2) * dr) (hR : 0 < R) :
    |(m : K) * dr - R| ≤ dr / 2 := by
  rw [abs_le]
  constructor
  · linarith
  · rcases hin with h0 | h1
    · subst h0; simp; linarith
    · linarith

end lattice

/-! ### volume on radial grids: the sphere of the located radius = the covered shells -/

/-- **Telescoping**: for any volume function with `V 0 = 0`, the shells `[i·dr, (i+1)·dr)`,
`i < m`, add up to the sphere of radius `m·dr` — the returned droplet's volume equals the total
volume of the covered cells. -/
theorem shells_telescope (V : ℝ → ℝ) (hV : V 0 = 0) (dr : ℝ) (m : ℕ) :
    ∑ i ∈ range m, (V (((i : ℝ) + 1) * dr) - V ((i : ℝ) * dr)) = V ((m : ℝ) * dr) := by
  have := Finset.sum_range_sub (fun i : ℕ => V ((i : ℝ) * dr)) m
  simp only [Nat.cast_add, Nat.cast_one, Nat.cast_zero, zero_mul, hV, sub_zero] at this
  exact this

/-- the regenerated `volume_from_radius` vanishes at radius 0 in every supported dimension, so the
telescoping applies to the library's own volume formula -/
theorem volume_at_zero (d : ℕ) (hd : d = 1 ∨ d = 2 ∨ d = 3) :
    DV.Gen.volume_from_radius_pde (0 : ℝ) d = .ok 0 := by
  rcases hd with rfl | rfl | rfl <;> simp [DV.Gen.volume_from_radius_pde]

/-- non-vacuity: spacing 1, origin 0, centre 2.3, q = 1.7² — the run is cells 1,2,3 (centres 1.5,
2.5, 3.5), cells 0 and 4 are outside; the mean 2.5 is within 0.5 of 2.3 -/
example : IsRun (0 : ℚ) 1 (23 / 10) ((17 / 10) ^ 2) 1 3 := by
  constructor <;> norm_num [cellCentre]

end DV.C01
