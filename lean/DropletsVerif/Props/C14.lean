/-
  C14 — Tracking during a simulation equals analysing the stored fields afterwards.
  Theorems about Model/Tracker.lean, for EVERY analysis function (also failing ones), every
  settings record and every sequence of (field, time) pairs.
-/
import DropletsVerif.Model.Tracker
import Mathlib.Tactic

namespace DV.C14
open DV.Tracker

variable {θ ρ F E T V : Type}

/-- **Every analysis option of the tracker is forwarded** to `locate_droplets` under the right
keyword (`perturbation_modes ↦ modes`), unchanged. -/
theorem optsOf_forwards_all (s : Settings θ ρ) :
    (optsOf s).threshold = s.threshold ∧ (optsOf s).minimalRadius = s.minimalRadius ∧
    (optsOf s).refine = s.refine ∧ (optsOf s).refineArgs = s.refineArgs ∧
    (optsOf s).modes = s.perturbationModes := ⟨rfl, rfl, rfl, rfl, rfl⟩

theorem foldlM_handle (locate : Opts θ ρ → F → Except String E) (s : Settings θ ρ)
    (frames : List (F × T)) (st : List (T × E)) :
    frames.foldlM (handle locate s) st =
      match (frames.map (·.1)).mapM (locate (optsOf s)) with
      | .ok es => .ok (st ++ (frames.map (·.2)).zip es)
      | .error err => .error err := by
  induction frames generalizing st with
  | nil => simp [pure, Except.pure]
  | cons fr frames ih =>
    simp only [List.foldlM_cons, List.map_cons, List.mapM_cons, bind, Except.bind, handle]
    cases h : locate (optsOf s) fr.1 with
    | error err => rfl
    | ok e =>
      simp only
      rw [ih]
      cases h2 : (frames.map (·.1)).mapM (locate (optsOf s)) with
      | error err => rfl
      | ok es => simp [pure, Except.pure]

/-- **Online = offline.**  Feeding any sequence of fields and times to the tracker records exactly
the time course obtained by analysing the same fields afterwards with the same settings — frame
by frame, with identical times; and both fail (with the same error) if the analysis fails on some
frame. -/
theorem tracker_eq_offline (locate : Opts θ ρ → F → Except String E) (s : Settings θ ρ)
    (frames : List (F × T)) :
    runTracker locate s frames = fromStorage locate (optsOf s) frames := by
  unfold runTracker fromStorage
  rw [foldlM_handle]
  cases (frames.map (·.1)).mapM (locate (optsOf s)) <;> simp

/-- the recorded times are exactly the times fed in, in order -/
theorem tracker_times (locate : Opts θ ρ → F → Except String E) (s : Settings θ ρ)
    (frames : List (F × T)) (res : List (T × E)) (h : runTracker locate s frames = .ok res) :
    res.map (·.1) = frames.map (·.2) := by
  rw [tracker_eq_offline] at h
  unfold fromStorage at h
  cases hm : (frames.map (·.1)).mapM (locate (optsOf s)) with
  | error e => rw [hm] at h; cases h
  | ok es =>
    rw [hm] at h
    cases h
    have hlen : es.length = (frames.map (·.1)).length := by
      generalize frames.map (·.1) = fs at hm
      induction fs generalizing es with
      | nil => simp [pure, Except.pure] at hm; subst hm; rfl
      | cons f fs ih =>
        simp only [List.mapM_cons, bind, Except.bind] at hm
        cases h1 : locate (optsOf s) f with
        | error e => rw [h1] at hm; cases hm
        | ok e =>
          rw [h1] at hm
          simp only at hm
          cases h2 : fs.mapM (locate (optsOf s)) with
          | error e => rw [h2] at hm; cases hm
          | ok es' =>
            rw [h2] at hm
            simp only [pure, Except.pure] at hm
            cases hm
            simp [ih es' h2]
    rw [List.map_fst_zip]
    simp [hlen]

theorem foldl_lsHandle (ls : F → Except String V) (frames : List (F × T)) (st : List (T × Option V)) :
    frames.foldl (lsHandle ls) st =
      st ++ frames.map (fun fr => (fr.2, valueOrNaN (ls fr.1))) := by
  induction frames generalizing st with
  | nil => simp
  | cons fr frames ih =>
    simp only [List.foldl_cons, ih, lsHandle, List.map_cons, List.append_assoc, List.singleton_append]

/-- **The length-scale tracker records, for every frame, exactly what the analysis returns (NaN
when it raises), with the frame's time** — it is a total function, so it never raises. -/
theorem lengthscale_records_all (ls : F → Except String V) (frames : List (F × T)) :
    runLs ls frames =
      frames.map (fun fr => (fr.2, valueOrNaN (ls fr.1))) := by
  unfold runLs; rw [foldl_lsHandle]; simp

/-- non-vacuity: an analysis that fails on the second of three frames -/
example :
    runTracker (θ := Nat) (ρ := Nat) (F := Nat) (E := Nat) (T := Nat)
      (fun _ f => if f = 2 then .error "boom" else .ok (10 * f)) ⟨0, 0, false, 0, 0⟩ [(1, 5), (2, 6), (3, 7)]
      = .error "boom" ∧
    runLs (F := Nat) (T := Nat) (V := Nat) (fun f => if f = 2 then .error "boom" else .ok (10 * f)) [(1, 5), (2, 6), (3, 7)]
      = [(5, some 10), (6, none), (7, some 30)] := by decide

/-! ### source selection of the length-scale tracker -/

/-- **An integer source selects that component of a collection — component 0 included** -/
theorem extract_index {F : Type} (g : List F → F) (fs : List F) (k : Nat) (hk : k < fs.length) :
    extract (.index k) g ⟨true, fs⟩ = .ok fs[k] := by
  unfold extract
  simp [List.getElem?_eq_getElem hk]

theorem extract_asIs {F : Type} (g : List F → F) (f : F) : extract .asIs g ⟨false, [f]⟩ = .ok f := rfl

theorem extract_func {F : Type} (g : List F → F) (st : State F) : extract .func g st = .ok (g st.fields) := rfl

/-- **With a source, the tracker records exactly what the analysis returns for the selected field**
(NaN when it fails), at the frame's time; the selection itself is the only thing that can raise. -/
theorem lengthscale_records_selected {F T V : Type} (src : Source) (g : List F → F) (ls : F → Except String V)
    (st : List (T × Option V)) (state : State F) (t : T) (f : F) (h : extract src g state = .ok f) :
    lsHandleSrc src g ls st (state, t) = .ok (st ++ [(t, valueOrNaN (ls f))]) := by
  unfold lsHandleSrc
  simp only [h]

example : extract (F := Nat) (.index 0) (fun _ => 7) ⟨true, [3, 4]⟩ = .ok 3 ∧
    extract (F := Nat) .asIs (fun _ => 7) ⟨true, [3, 4]⟩ = .error "TypeError" := by decide

end DV.C14
