/-
  C11 — Merging droplets conserves volume and centre of mass.
  Statements are about `merge_copy / merge_inplace / merge_diffuse_*` REGENERATED from
  droplets/droplets.py (`_make_merge_data.merge_data` of SphericalDroplet and DiffuseDroplet,
  statement order preserved, `out ≡ drop1` aliasing replayed for the in-place variants) and the
  dimension-generic conversions regenerated from droplets/tools/spherical.py, read at `ℝ`.
  One coordinate of the position is modelled (numpy treats coordinates uniformly).
-/
import DropletsVerif.Lemmas.RealInst
import DropletsVerif.Generated.Merge
import Mathlib.Tactic

namespace DV.C11
open DV DV.Gen

def Dim (d : Nat) : Prop := d = 1 ∨ d = 2 ∨ d = 3

/-- explicit sphere volume (specification side) -/
noncomputable def Vol (d : Nat) (r : ℝ) : ℝ :=
  if d = 1 then 2 * r else if d = 2 then Real.pi * r ^ 2 else 4 * Real.pi / 3 * r ^ 3

theorem vol_nd_eq (d : Nat) (hd : Dim d) (r : ℝ) : volume_from_radius_nd r d = .ok (Vol d r) := by
  rcases hd with rfl | rfl | rfl <;> simp [volume_from_radius_nd, Vol]

theorem Vol_nonneg (d : Nat) (hd : Dim d) (r : ℝ) (hr : 0 ≤ r) : 0 ≤ Vol d r := by
  rcases hd with rfl | rfl | rfl <;> simp [Vol] <;> positivity

/-- the regenerated radius-from-volume inverts the regenerated volume-from-radius -/
theorem vol_rad (d : Nat) (hd : Dim d) (v : ℝ) (hv : 0 ≤ v) :
    ∃ r, radius_from_volume_nd v d = .ok r ∧ 0 ≤ r ∧ Vol d r = v := by
  rcases hd with rfl | rfl | rfl
  · refine ⟨v / 2, by simp [radius_from_volume_nd], by positivity, ?_⟩
    simp [Vol]; ring
  · refine ⟨Real.sqrt (v / Real.pi), by simp [radius_from_volume_nd], Real.sqrt_nonneg _, ?_⟩
    simp [Vol]
    rw [Real.sq_sqrt (div_nonneg hv Real.pi_pos.le)]
    field_simp
  · refine ⟨(3 * v / (4 * Real.pi)) ^ ((1 : ℝ) / 3), by simp [radius_from_volume_nd],
      by positivity, ?_⟩
    simp [Vol]
    have hx : 0 ≤ 3 * v / (4 * Real.pi) := by positivity
    rw [← Real.rpow_natCast, ← Real.rpow_mul hx]
    norm_num
    try field_simp

/-- **Volume, centre and (spherical) width of the merged droplet.**  For every dimension 1–3,
all radii `≥ 0` and positions: the merge succeeds, the volume is the sum of the volumes, the
centre is the volume-weighted mean, and the (plain spherical) merge does not touch the width of
`out`. -/
theorem merge_copy_spec (d : Nat) (hd : Dim d) (d1 d2 o : Rec ℝ)
    (h1 : 0 ≤ d1.radius) (h2 : 0 ≤ d2.radius) :
    ∃ out, merge_copy d d1 d2 o = .ok out ∧ 0 ≤ out.radius ∧
      Vol d out.radius = Vol d d1.radius + Vol d d2.radius ∧
      out.pos = (Vol d d1.radius * d1.pos + Vol d d2.radius * d2.pos)
                  / (Vol d d1.radius + Vol d d2.radius) ∧
      out.width = o.width := by
  have hv : 0 ≤ Vol d d1.radius + Vol d d2.radius :=
    add_nonneg (Vol_nonneg d hd _ h1) (Vol_nonneg d hd _ h2)
  obtain ⟨r, hr, hr0, hrv⟩ := vol_rad d hd _ hv
  refine ⟨⟨(Vol d d1.radius * d1.pos + Vol d d2.radius * d2.pos)
      / (Vol d d1.radius + Vol d d2.radius), r, o.width⟩, ?_, hr0, hrv, rfl, rfl⟩
  simp [merge_copy, vol_nd_eq d hd, hr, Except.bind]

/-- centre-of-mass form: `(V₁+V₂)·p_out = V₁p₁ + V₂p₂` when the total volume is positive -/
theorem merge_centre (d : Nat) (hd : Dim d) (d1 d2 o out : Rec ℝ)
    (h1 : 0 ≤ d1.radius) (h2 : 0 ≤ d2.radius)
    (hpos : 0 < Vol d d1.radius + Vol d d2.radius) (h : merge_copy d d1 d2 o = .ok out) :
    Vol d out.radius * out.pos = Vol d d1.radius * d1.pos + Vol d d2.radius * d2.pos := by
  obtain ⟨out', h', _, hv, hp, _⟩ := merge_copy_spec d hd d1 d2 o h1 h2
  rw [h] at h'; cases h'
  rw [hv, hp]; field_simp

/-- diffuse droplets: same radius/centre, and the width is the mean of the widths -/
theorem merge_diffuse_spec (d : Nat) (hd : Dim d) (d1 d2 o : Rec ℝ)
    (h1 : 0 ≤ d1.radius) (h2 : 0 ≤ d2.radius) :
    ∃ out s, merge_diffuse_copy d d1 d2 o = .ok out ∧ merge_copy d d1 d2 o = .ok s ∧
      out.radius = s.radius ∧ out.pos = s.pos ∧ out.width = (d1.width + d2.width) / 2 := by
  have hv : 0 ≤ Vol d d1.radius + Vol d d2.radius :=
    add_nonneg (Vol_nonneg d hd _ h1) (Vol_nonneg d hd _ h2)
  obtain ⟨r, hr, _, _⟩ := vol_rad d hd _ hv
  refine ⟨⟨(Vol d d1.radius * d1.pos + Vol d d2.radius * d2.pos)
      / (Vol d d1.radius + Vol d d2.radius), r, (d1.width + d2.width) / 2⟩,
    ⟨(Vol d d1.radius * d1.pos + Vol d d2.radius * d2.pos)
      / (Vol d d1.radius + Vol d d2.radius), r, o.width⟩, ?_, ?_, rfl, rfl, rfl⟩
  · simp [merge_diffuse_copy, vol_nd_eq d hd, hr, Except.bind]
  · simp [merge_copy, vol_nd_eq d hd, hr, Except.bind]

/-- **In-place = out-of-place.**  Replaying the statements with `out` aliased to `drop1`
(the `inplace=True` call `_merge_data(self.data, other.data, out=self.data)`) yields the same
record as writing into a fresh record whose untouched fields start as `drop1`'s.  Holds for EVERY
input and dimension (including the error branch): it is a statement about statement order. -/
theorem merge_inplace_eq_copy (d : Nat) (d1 d2 o : Rec ℝ) :
    merge_inplace d d1 d2 o = merge_copy d d1 d2 d1 ∧
    merge_diffuse_inplace d d1 d2 o = merge_diffuse_copy d d1 d2 d1 := by
  constructor <;> rfl

/-- **Operand order does not matter.** -/
theorem merge_comm (d : Nat) (d1 d2 o : Rec ℝ) :
    merge_copy d d1 d2 o = merge_copy d d2 d1 o ∧
    merge_diffuse_copy d d1 d2 o = merge_diffuse_copy d d2 d1 o := by
  by_cases hd : Dim d
  · rcases hd with rfl | rfl | rfl <;>
      simp [merge_copy, merge_diffuse_copy, volume_from_radius_nd, radius_from_volume_nd,
        Except.bind, add_comm]
  · have h1 : d ≠ 1 := fun h => hd (Or.inl h)
    have h2 : d ≠ 2 := fun h => hd (Or.inr (Or.inl h))
    have h3 : d ≠ 3 := fun h => hd (Or.inr (Or.inr h))
    simp [merge_copy, merge_diffuse_copy, volume_from_radius_nd, Except.bind, h1, h2, h3]

/-! ### vector positions

The regenerated statement `out.position[...] = (V1 * drop1.position + V2 * drop2.position) / volume` acts on the position ARRAY; numpy applies it to
every coordinate with the same scalars `V1`, `V2`, `volume`.  The merge of droplets with positions in `ι → ℝ` (any number of coordinates — the
record's dimension and the dimension of the volume formula are the same `d` in the code, the theorem does not even need that) is therefore the
regenerated scalar merge applied per coordinate, and the conservation laws hold for the position VECTOR. -/

/-- the merged radius does not depend on the positions (so every coordinate of a vector merge carries the same radius) -/
theorem merge_radius_indep (d : Nat) (d1 d2 o d1' d2' o' out out' : Rec ℝ) (hr1 : d1.radius = d1'.radius) (hr2 : d2.radius = d2'.radius)
    (h : merge_copy d d1 d2 o = .ok out) (h' : merge_copy d d1' d2' o' = .ok out') : out.radius = out'.radius := by
  simp only [merge_copy, ← hr1, ← hr2] at h h'
  cases hv1 : volume_from_radius_nd d1.radius d with
  | error e => simp [hv1, Except.bind] at h
  | ok V1 =>
    cases hv2 : volume_from_radius_nd d2.radius d with
    | error e => simp [hv1, hv2, Except.bind] at h
    | ok V2 =>
      cases hr : radius_from_volume_nd (V1 + V2) d with
      | error e => simp [hv1, hv2, hr, Except.bind] at h
      | ok r =>
        simp only [hv1, hv2, hr, Except.bind, Except.ok.injEq] at h h'
        rw [← h, ← h']

/-- **Merging conserves volume and the centre-of-mass VECTOR**: for positions with any index set of coordinates, dimension 1–3 and radii `≥ 0`
there are ONE radius `r` and a position vector `P` such that the regenerated merge yields `(P k, r)` in every coordinate `k`, with
`Vol r = Vol r₁ + Vol r₂` and `(Vol r₁ + Vol r₂) • P = Vol r₁ • p₁ + Vol r₂ • p₂` (no positivity needed in this form). -/
theorem merge_vector_conserves {ι : Type} (d : Nat) (hd : Dim d) (p1 p2 : ι → ℝ) (r1 r2 w1 w2 : ℝ) (o : Rec ℝ)
    (h1 : 0 ≤ r1) (h2 : 0 ≤ r2) (hpos : 0 < Vol d r1 + Vol d r2) :
    ∃ (r : ℝ) (P : ι → ℝ), 0 ≤ r ∧ Vol d r = Vol d r1 + Vol d r2 ∧
      (∀ k, merge_copy d ⟨p1 k, r1, w1⟩ ⟨p2 k, r2, w2⟩ o = .ok ⟨P k, r, o.width⟩) ∧
      (∀ k, merge_diffuse_copy d ⟨p1 k, r1, w1⟩ ⟨p2 k, r2, w2⟩ o = .ok ⟨P k, r, (w1 + w2) / 2⟩) ∧
      (Vol d r1 + Vol d r2) • P = Vol d r1 • p1 + Vol d r2 • p2 := by
  have hv : 0 ≤ Vol d r1 + Vol d r2 := hpos.le
  obtain ⟨r, hr, hr0, hrv⟩ := vol_rad d hd _ hv
  refine ⟨r, fun k => (Vol d r1 * p1 k + Vol d r2 * p2 k) / (Vol d r1 + Vol d r2), hr0, hrv, ?_, ?_, ?_⟩
  · intro k; simp [merge_copy, vol_nd_eq d hd, hr, Except.bind]
  · intro k; simp [merge_diffuse_copy, vol_nd_eq d hd, hr, Except.bind]
  · funext k
    simp only [Pi.smul_apply, Pi.add_apply, smul_eq_mul]
    field_simp

/-- non-vacuity: two 3-D droplets with different positions and radii -/
example : ∃ (r : ℝ) (P : Fin 3 → ℝ), Vol 3 r = Vol 3 1 + Vol 3 2 ∧
    (Vol 3 1 + Vol 3 2) • P = Vol 3 1 • (![0, 1, -2] : Fin 3 → ℝ) + Vol 3 2 • ![3, 0, 5] := by
  have hp : 0 < Vol 3 1 + Vol 3 2 := by simp [Vol]; positivity
  obtain ⟨r, P, _, hv, _, _, hc⟩ := merge_vector_conserves 3 (Or.inr (Or.inr rfl)) ![0, 1, -2] ![3, 0, 5] 1 2 0 0 ⟨0, 0, 0⟩ (by norm_num) (by norm_num) hp
  exact ⟨r, P, hv, hc⟩

/-- a zero-radius right operand leaves radius and position unchanged (positive left volume) -/
theorem merge_zero_right (d : Nat) (hd : Dim d) (d1 d2 o out : Rec ℝ)
    (h1 : 0 < d1.radius) (h2 : d2.radius = 0) (h : merge_copy d d1 d2 o = .ok out) :
    out.radius = d1.radius ∧ out.pos = d1.pos := by
  obtain ⟨out', h', hr0, hv, hp, _⟩ := merge_copy_spec d hd d1 d2 o h1.le (by rw [h2])
  rw [h] at h'; cases h'
  have hV2 : Vol d d2.radius = 0 := by
    rcases hd with rfl | rfl | rfl <;> simp [Vol, h2]
  have hV1 : 0 < Vol d d1.radius := by
    rcases hd with rfl | rfl | rfl <;> simp [Vol] <;> positivity
  rw [hV2, add_zero] at hv
  rw [hV2, add_zero, zero_mul, add_zero] at hp
  refine ⟨?_, by rw [hp]; field_simp⟩
  -- Vol is injective on the non-negative reals
  rcases hd with rfl | rfl | rfl
  · simp [Vol] at hv; linarith
  · simp [Vol] at hv
    have : out.radius ^ 2 = d1.radius ^ 2 := by
      have hpi := Real.pi_pos; nlinarith
    exact (sq_eq_sq₀ hr0 h1.le).mp this
  · simp [Vol] at hv
    have hpi := Real.pi_pos
    have : out.radius ^ 3 = d1.radius ^ 3 := by
      have : 4 * Real.pi / 3 ≠ 0 := by positivity
      field_simp at hv; nlinarith
    exact (pow_left_inj₀ hr0 h1.le (by norm_num)).mp this

/-! ### repeated merging: total volume and first moment are conserved whatever the grouping -/

/-- a grouping of merges -/
inductive MTree where
  | leaf (d : Rec ℝ)
  | node (l r : MTree)

/-- evaluate a grouping with the regenerated `merge_copy` -/
noncomputable def MTree.eval (d : Nat) : MTree → Res (Rec ℝ)
  | .leaf x => .ok x
  | .node l r =>
    match MTree.eval d l, MTree.eval d r with
    | .ok a, .ok b => merge_copy d a b a
    | .error e, _ => .error e
    | _, .error e => .error e

def MTree.leaves : MTree → List (Rec ℝ)
  | .leaf x => [x]
  | .node l r => l.leaves ++ r.leaves

/-- every subtree has positive volume (the documented precondition "positive total volume") -/
noncomputable def MTree.sumV (d : Nat) (t : MTree) : ℝ := (t.leaves.map (fun x => Vol d x.radius)).sum
noncomputable def MTree.sumVP (d : Nat) (t : MTree) : ℝ :=
  (t.leaves.map (fun x => Vol d x.radius * x.pos)).sum

def MTree.Pos (d : Nat) : MTree → Prop
  | .leaf x => 0 ≤ x.radius
  | .node l r => l.Pos d ∧ r.Pos d ∧ 0 < MTree.sumV d l + MTree.sumV d r

theorem mergeTree_conserves (d : Nat) (hd : Dim d) (t : MTree) (ht : t.Pos d) :
    ∃ out, t.eval d = .ok out ∧ 0 ≤ out.radius ∧ Vol d out.radius = t.sumV d ∧
      Vol d out.radius * out.pos = t.sumVP d := by
  induction t with
  | leaf x => exact ⟨x, rfl, ht, by simp [MTree.sumV, MTree.leaves], by simp [MTree.sumVP, MTree.leaves]⟩
  | node l r ihl ihr =>
    obtain ⟨hl, hr, hpos⟩ := ht
    obtain ⟨a, ha, ha0, hav, hap⟩ := ihl hl
    obtain ⟨b, hb, hb0, hbv, hbp⟩ := ihr hr
    obtain ⟨out, ho, ho0, hov, _, _⟩ := merge_copy_spec d hd a b a ha0 hb0
    refine ⟨out, by simp [MTree.eval, ha, hb, ho], ho0, ?_, ?_⟩
    · simp only [MTree.sumV, MTree.leaves, List.map_append, List.sum_append] at *
      rw [hov, hav, hbv]
    · have := merge_centre d hd a b a out ha0 hb0 (by rw [hav, hbv]; exact hpos) ho
      simp only [MTree.sumVP, MTree.leaves, List.map_append, List.sum_append] at *
      rw [this, hap, hbp]

/-- hence two groupings of the same leaves agree on volume and centre of mass -/
theorem mergeTree_grouping_independent (d : Nat) (hd : Dim d) (s t : MTree)
    (hs : s.Pos d) (ht : t.Pos d) (hl : s.leaves.Perm t.leaves) :
    ∃ a b, s.eval d = .ok a ∧ t.eval d = .ok b ∧ Vol d a.radius = Vol d b.radius ∧
      Vol d a.radius * a.pos = Vol d b.radius * b.pos := by
  obtain ⟨a, ha, _, hav, hap⟩ := mergeTree_conserves d hd s hs
  obtain ⟨b, hb, _, hbv, hbp⟩ := mergeTree_conserves d hd t ht
  refine ⟨a, b, ha, hb, ?_, ?_⟩
  · rw [hav, hbv]; exact (hl.map _).sum_eq
  · rw [hap, hbp]; exact (hl.map _).sum_eq

/-- unsupported dimension: the documented error, for every input -/
theorem merge_unsupported_dim (d : Nat) (hd : ¬ Dim d) (d1 d2 o : Rec ℝ) :
    merge_copy d d1 d2 o = .error "NotImplementedError" := by
  have h1 : d ≠ 1 := fun h => hd (Or.inl h)
  have h2 : d ≠ 2 := fun h => hd (Or.inr (Or.inl h))
  have h3 : d ≠ 3 := fun h => hd (Or.inr (Or.inr h))
  simp [merge_copy, volume_from_radius_nd, Except.bind, h1, h2, h3]

/-- non-vacuity: a concrete tree of three unequal droplets satisfies `Pos` in 3-D -/
example : (MTree.node (.leaf ⟨0, 1, 1⟩) (.node (.leaf ⟨3, 0, 1⟩) (.leaf ⟨-2, 2, 2⟩))).Pos 3 := by
  simp [MTree.Pos, MTree.sumV, MTree.leaves, Vol]
  have := Real.pi_pos
  constructor <;> nlinarith

end DV.C11
