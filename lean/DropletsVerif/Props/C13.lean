/-
  C13 — A perturbed droplet's volume, surface, curvature and outline match its shape.
  Theorems over `ℝ` about `Generated/Perturbed.lean` (regenerated on every run from the loops of
  PerturbedDroplet2D / 3D / 3DAxisSym: `=` vs `+=`, the `if a != 0` guards, the powers of the
  radius are whatever the source says NOW).  Spherical harmonics enter as an arbitrary table
  `Y : ℕ → ℝ` (value of mode k in the direction considered), so every statement holds for any
  direction and any harmonics.

  The specification side is short and readable:
    distance   R · (1 + Σ_k a_k B_k)
    curvature  2-D: 1 / (R · (1 − Σ_n (n²−1)(a_n sin nφ + b_n cos nφ)))
               3-D: 1/R + (1/R) Σ_k a_k (l_k² + l_k − 2)/2 · Y_k       (l_k = degree of mode k)
    volume     2-D: π R² (1 + Σ a²/2);   3-D approximate: 4π/3 R³ (no first-order term)
  That these are the first-order expansions of the true mean curvature / volume is classical
  differential geometry (H[R(1+εu)] = 1/R − ε(2u + Δ_S u)/(2R) + O(ε²), Δ_S Y_lm = −l(l+1) Y_lm,
  ∫Y_lm = 0 for l ≥ 1); Mathlib has no spherical harmonics, so that link is validated numerically
  by the harness (finite-difference mean curvature, quadrature volumes), not proved here.
-/
import DropletsVerif.Lemmas.RealInst
import DropletsVerif.Generated.Perturbed
import DropletsVerif.Lemmas.Fourier
import DropletsVerif.Lemmas.SphereVol
import Mathlib.Tactic

namespace DV.C13
open DV DV.Gen

/-! ### sums over enumerated amplitudes -/

/-- `Σ_i g (start + i) xs[i]` -/
def esum {β : Type} (g : ℕ → β → ℝ) : List β → ℕ → ℝ
  | [], _ => 0
  | x :: xs, start => g start x + esum g xs (start + 1)

theorem foldEnum_add {β : Type} (g : ℕ → β → ℝ) (xs : List β) (init : ℝ) (start : ℕ) :
    foldEnum (fun acc n x => acc + g n x) init xs start = init + esum g xs start := by
  induction xs generalizing init start with
  | nil => simp [foldEnum, esum]
  | cons x xs ih => simp [foldEnum, esum, ih]; ring

theorem foldEnum_congr {β : Type} (f f' : ℝ → ℕ → β → ℝ) (h : ∀ acc n x, f acc n x = f' acc n x)
    (xs : List β) (init : ℝ) (start : ℕ) : foldEnum f init xs start = foldEnum f' init xs start := by
  induction xs generalizing init start with
  | nil => rfl
  | cons x xs ih => simp [foldEnum, h, ih]

theorem esum_smul {β : Type} (g : ℕ → β → ℝ) (c : ℝ) (xs : List β) (start : ℕ) :
    esum (fun n x => c * g n x) xs start = c * esum g xs start := by
  induction xs generalizing start with
  | nil => simp [esum]
  | cons x xs ih => simp [esum, ih]; ring

theorem esum_zero {β : Type} (g : ℕ → β → ℝ) (xs : List β) (start : ℕ) (h : ∀ n, ∀ x ∈ xs, g n x = 0) :
    esum g xs start = 0 := by
  induction xs generalizing start with
  | nil => rfl
  | cons x xs ih =>
    simp [esum, h start x List.mem_cons_self, ih (start + 1) (fun n y hy => h n y (List.mem_cons_of_mem _ hy))]

/-! ### 2-D -/

/-- harmonic of mode `n` with the amplitude pair `(a, b)` -/
noncomputable def term2 (φ : ℝ) (n : ℕ) (ab : ℝ × ℝ) : ℝ :=
  ab.1 * Real.sin (n * φ) + ab.2 * Real.cos (n * φ)

/-- **Interface distance = R (1 + Σ_n a_n sin nφ + b_n cos nφ)**; the `if a != 0` guards are no-ops -/
theorem p2d_distance_eq_spec (R φ : ℝ) (amps : List ℝ) :
    p2d_distance R amps φ = R * (1 + esum (term2 φ) (pairs 0 amps) 1) := by
  unfold p2d_distance
  simp only [dnum_lit, dnum_sin, dnum_cos, dnum_eqz_false]
  rw [foldEnum_congr _ (fun acc n ab => acc + term2 φ n ab), foldEnum_add]
  · simp
  · intro acc n ab
    by_cases h1 : ab.1 = 0 <;> by_cases h2 : ab.2 = 0 <;> simp [term2, h1, h2] <;> ring

/-- **Linearised curvature in 2-D = 1 / (R (1 − Σ_n (n²−1)(a_n sin nφ + b_n cos nφ)))** -/
theorem p2d_curvature_eq_spec (R φ : ℝ) (amps : List ℝ) :
    p2d_curvature R amps φ =
      1 / (R * (1 - esum (fun n ab => ((n : ℝ) * n - 1) * term2 φ n ab) (pairs 0 amps) 1)) := by
  unfold p2d_curvature
  simp only [dnum_lit, dnum_sin, dnum_cos, dnum_eqz_false, Nat.cast_one, Nat.cast_zero]
  rw [foldEnum_congr _ (fun acc n ab => acc + (-(((n : ℝ) * n - 1) * term2 φ n ab))), foldEnum_add]
  · have : esum (fun n ab => -(((n : ℝ) * n - 1) * term2 φ n ab)) (pairs 0 amps) 1 =
        -esum (fun n ab => ((n : ℝ) * n - 1) * term2 φ n ab) (pairs 0 amps) 1 := by
      have := esum_smul (fun n ab => ((n : ℝ) * n - 1) * term2 φ n ab) (-1) (pairs 0 amps) 1
      simpa using this
    rw [this, ← sub_eq_add_neg]
  · intro acc n ab
    by_cases h1 : ab.1 = 0 <;> by_cases h2 : ab.2 = 0 <;> simp [term2, h1, h2] <;> ring

/-- **2-D volume = π R² (1 + Σ a²/2)** -/
theorem p2d_volume_eq_spec (R : ℝ) (amps : List ℝ) :
    p2d_volume R amps = Real.pi * R ^ 2 * (1 + (amps.map (· ^ 2)).sum / 2) := by
  unfold p2d_volume
  simp only [dnum_lit, dnum_pi, dnum_npow]
  have : ∀ (l : List ℝ) (init : ℝ), List.foldl (fun acc x => acc + x ^ 2) init l = init + (l.map (· ^ 2)).sum := by
    intro l
    induction l with
    | nil => simp
    | cons x l ih => intro init; simp [ih]; ring
  rw [this]; simp

/-- **Setting the volume and reading it back returns the value set** (relative perturbations kept) -/
theorem p2d_volume_setter_getter (v : ℝ) (hv : 0 ≤ v) (amps : List ℝ) :
    p2d_volume (p2d_set_volume v amps) amps = v := by
  rw [p2d_volume_eq_spec]
  unfold p2d_set_volume
  simp only [dnum_lit, dnum_pi, dnum_npow, dnum_sqrt, Nat.cast_one, Nat.cast_zero, Nat.cast_ofNat]
  have hfold : ∀ (l : List ℝ) (init : ℝ), List.foldl (fun acc x => acc + x ^ 2) init l = init + (l.map (· ^ 2)).sum := by
    intro l
    induction l with
    | nil => simp
    | cons x l ih => intro init; simp [ih]; ring
  rw [hfold]
  have hs : 0 ≤ (amps.map (· ^ 2)).sum := by
    apply List.sum_nonneg
    intro x hx
    obtain ⟨y, _, rfl⟩ := List.mem_map.mp hx
    positivity
  have hT : 0 < 1 + (0 + (amps.map (· ^ 2)).sum) / 2 := by linarith
  have hpos : 0 ≤ v / (Real.pi * (1 + (0 + (amps.map (· ^ 2)).sum) / 2)) :=
    div_nonneg hv (mul_nonneg Real.pi_pos.le hT.le)
  rw [Real.sq_sqrt hpos]
  have hpi := Real.pi_pos
  field_simp
  ring

/-! ### 3-D and axisymmetric: sums over single amplitudes with an arbitrary harmonic table -/

/-- **Interface distance = R (1 + Σ_k a_k Y_k)** -/
theorem p3d_distance_eq_spec (R : ℝ) (amps : List ℝ) (Y : ℕ → ℝ) (deg : ℕ → ℕ) :
    p3d_distance R amps Y deg = R * (1 + esum (fun k a => a * Y k) amps 1) ∧
    axi_distance R amps Y deg = R * (1 + esum (fun k a => a * Y k) amps 1) := by
  constructor <;>
  · simp only [p3d_distance, axi_distance, dnum_lit, dnum_eqz_false]
    rw [foldEnum_congr _ (fun acc k a => acc + a * Y k), foldEnum_add]
    · simp
    · intro acc k a
      by_cases h : a = 0 <;> simp [h]

/-- linearised curvature weight of a mode of degree `l` -/
noncomputable def hdeg (l : ℕ) : ℝ := ((l : ℝ) ^ 2 + l - 2) / 2

/-- **Linearised mean curvature in 3-D = 1/R + (1/R) Σ_k a_k h(l_k) Y_k: ALL modes contribute and
the correction scales like 1/R** -/
theorem p3d_curvature_eq_spec (R : ℝ) (amps : List ℝ) (Y : ℕ → ℝ) (deg : ℕ → ℕ) :
    p3d_curvature R amps Y deg = 1 / R + esum (fun k a => a * hdeg (deg k) * Y k) amps 1 / R := by
  simp only [p3d_curvature, dnum_lit, dnum_eqz_false, dnum_npow]
  rw [foldEnum_congr _ (fun acc k a => acc + a * hdeg (deg k) * Y k), foldEnum_add]
  · simp
  · intro acc k a
    by_cases h : a = 0 <;> simp [h, hdeg]

theorem axi_curvature_eq_spec (R : ℝ) (amps : List ℝ) (Y : ℕ → ℝ) (deg : ℕ → ℕ) :
    axi_curvature R amps Y deg = 1 / R + esum (fun l a => a * hdeg l * Y l) amps 1 / R := by
  simp only [axi_curvature, dnum_lit, dnum_eqz_false, dnum_npow]
  rw [foldEnum_congr _ (fun acc l a => acc + a * hdeg l * Y l), foldEnum_add]
  · simp
  · intro acc l a
    by_cases h : a = 0 <;> simp [h, hdeg]

/-- **Curvature of a perturbed shape scales inversely with its size** (the shape R·(1+u) is the
unit shape magnified by R), for any radius and any combination of modes -/
theorem curvature_scales_inverse (R : ℝ) (amps : List ℝ) (Y : ℕ → ℝ) (deg : ℕ → ℕ) :
    p3d_curvature R amps Y deg = p3d_curvature 1 amps Y deg / R ∧
    axi_curvature R amps Y deg = axi_curvature 1 amps Y deg / R := by
  rw [p3d_curvature_eq_spec, p3d_curvature_eq_spec, axi_curvature_eq_spec, axi_curvature_eq_spec]
  constructor <;> · simp; ring

theorem distance_scales (R : ℝ) (amps : List ℝ) (Y : ℕ → ℝ) (deg : ℕ → ℕ) (φ : ℝ) :
    p3d_distance R amps Y deg = R * p3d_distance 1 amps Y deg ∧
    p2d_distance R amps φ = R * p2d_distance 1 amps φ := by
  rw [(p3d_distance_eq_spec R amps Y deg).1, (p3d_distance_eq_spec 1 amps Y deg).1,
    p2d_distance_eq_spec, p2d_distance_eq_spec]
  constructor <;> ring

/-- **The approximate volume has no first-order term**: it is the sphere's volume -/
theorem volume_approx_eq_spec (R : ℝ) (amps : List ℝ) :
    p3d_volume_approx R amps = 4 / 3 * Real.pi * R ^ 3 ∧ axi_volume_approx R amps = 4 / 3 * Real.pi * R ^ 3 := by
  simp [p3d_volume_approx, axi_volume_approx, sphereVolume3]

/-! ### all amplitudes zero: everything reduces to the sphere / circle -/

theorem pairs_zero (amps : List ℝ) (h : ∀ a ∈ amps, a = 0) : ∀ ab ∈ pairs (0 : ℝ) amps, ab = (0, 0) := by
  fun_induction pairs (0 : ℝ) amps with
  | case1 => simp
  | case2 a =>
    intro ab hab
    simp only [List.mem_singleton] at hab
    rw [hab, h a List.mem_cons_self]
  | case3 a b rest ih =>
    intro ab hab
    simp only [List.mem_cons] at hab
    rcases hab with rfl | hab
    · rw [h a List.mem_cons_self, h b (List.mem_cons_of_mem _ List.mem_cons_self)]
    · exact ih (fun x hx => h x (List.mem_cons_of_mem _ (List.mem_cons_of_mem _ hx))) ab hab

/-- **With all amplitudes zero every quantity reduces to that of a sphere / circle** -/
theorem zero_amplitudes_reduce (R φ : ℝ) (amps : List ℝ) (Y : ℕ → ℝ) (deg : ℕ → ℕ) (h : ∀ a ∈ amps, a = 0) :
    p2d_distance R amps φ = R ∧ p2d_curvature R amps φ = 1 / R ∧ p2d_volume R amps = Real.pi * R ^ 2 ∧
    p3d_distance R amps Y deg = R ∧ axi_distance R amps Y deg = R ∧
    p3d_curvature R amps Y deg = 1 / R ∧ axi_curvature R amps Y deg = 1 / R := by
  have hp := pairs_zero amps h
  have e1 : esum (term2 φ) (pairs 0 amps) 1 = 0 :=
    esum_zero _ _ _ (fun n ab hab => by rw [hp ab hab]; simp [term2])
  have e2 : esum (fun n ab => ((n : ℝ) * n - 1) * term2 φ n ab) (pairs 0 amps) 1 = 0 :=
    esum_zero _ _ _ (fun n ab hab => by rw [hp ab hab]; simp [term2])
  have e3 : esum (fun k a => a * Y k) amps 1 = 0 := esum_zero _ _ _ (fun n a ha => by rw [h a ha]; simp)
  have e4 : esum (fun k a => a * hdeg (deg k) * Y k) amps 1 = 0 := esum_zero _ _ _ (fun n a ha => by rw [h a ha]; simp)
  have e5 : esum (fun l a => a * hdeg l * Y l) amps 1 = 0 := esum_zero _ _ _ (fun n a ha => by rw [h a ha]; simp)
  have e6 : (amps.map (· ^ 2)).sum = 0 := by
    apply List.sum_eq_zero
    intro x hx
    obtain ⟨y, hy, rfl⟩ := List.mem_map.mp hx
    rw [h y hy]; simp
  refine ⟨?_, ?_, ?_, ?_, ?_, ?_, ?_⟩
  · rw [p2d_distance_eq_spec, e1]; ring
  · rw [p2d_curvature_eq_spec, e2]; simp
  · rw [p2d_volume_eq_spec, e6]; ring
  · rw [(p3d_distance_eq_spec R amps Y deg).1, e3]; ring
  · rw [(p3d_distance_eq_spec R amps Y deg).2, e3]; ring
  · rw [p3d_curvature_eq_spec, e4]; simp
  · rw [axi_curvature_eq_spec, e5]; simp

/-! ### mode indexing (`spherical_index_lm`, `spherical_index_k`, `spherical_index_count*`) -/

/-- degree and order of mode `k`: `l = ⌊√k⌋`, `m = k − l(l+1)` -/
def lmOf (k : ℕ) : ℕ × ℤ := (Nat.sqrt k, (k : ℤ) - (Nat.sqrt k : ℤ) * ((Nat.sqrt k : ℤ) + 1))

/-- **Every mode index is a valid (degree, order) pair and maps back to itself** -/
theorem lm_roundtrip (k : ℕ) :
    -((lmOf k).1 : ℤ) ≤ (lmOf k).2 ∧ (lmOf k).2 ≤ (lmOf k).1 ∧
    ((lmOf k).1 : ℤ) * ((lmOf k).1 + 1) + (lmOf k).2 = k := by
  have h1 := Nat.sqrt_le k
  have h2 := Nat.lt_succ_sqrt k
  simp only [lmOf]
  have h1' : ((Nat.sqrt k : ℤ)) * (Nat.sqrt k : ℤ) ≤ k := by exact_mod_cast h1
  have h2' : (k : ℤ) < ((Nat.sqrt k : ℤ) + 1) * ((Nat.sqrt k : ℤ) + 1) := by exact_mod_cast h2
  refine ⟨by nlinarith, by nlinarith, by ring⟩

/-- conversely `(l, m) ↦ l(l+1) + m ↦ (l, m)` for `−l ≤ m ≤ l` -/
theorem k_roundtrip (l : ℕ) (m : ℤ) (h1 : -(l : ℤ) ≤ m) (h2 : m ≤ l) :
    ∃ k : ℕ, (k : ℤ) = (l : ℤ) * (l + 1) + m ∧ lmOf k = (l, m) := by
  have hk : 0 ≤ (l : ℤ) * (l + 1) + m := by nlinarith
  refine ⟨((l : ℤ) * (l + 1) + m).toNat, Int.toNat_of_nonneg hk, ?_⟩
  have hsq : Nat.sqrt (((l : ℤ) * (l + 1) + m).toNat) = l := by
    symm
    rw [Nat.eq_sqrt]
    constructor
    · have : ((l * l : ℕ) : ℤ) ≤ (l : ℤ) * (l + 1) + m := by push_cast; nlinarith
      exact_mod_cast (Int.le_toNat hk).mpr this
    · have : (l : ℤ) * (l + 1) + m < (((l + 1) * (l + 1) : ℕ) : ℤ) := by push_cast; nlinarith
      exact_mod_cast (Int.toNat_lt hk).mpr this
  simp only [lmOf, hsq, Int.toNat_of_nonneg hk, Prod.mk.injEq, true_and]
  ring

/-- the number of modes up to degree `l` is a perfect square, `(l+1)²` -/
theorem count_is_square (l : ℕ) : 1 + 2 * l + l * l = (l + 1) * (l + 1) := by ring

end DV.C13

/-! ### 2-D: the reported quantities ARE the geometry of the outline (Lemmas/Fourier.lean) -/

namespace DV.C13
open DV DV.Gen DV.Fourier Real

theorem esum_term2_eq_tp (φ : ℝ) (ps : List (ℝ × ℝ)) (s : ℕ) : esum (term2 φ) ps s = tp ps s φ := by
  induction ps generalizing s with
  | nil => rfl
  | cons p ps ih => simp only [esum, tp, term2, ih]

theorem esum_w_eq_tpw (w : ℕ → ℝ) (φ : ℝ) (ps : List (ℝ × ℝ)) (s : ℕ) :
    esum (fun n ab => w n * term2 φ n ab) ps s = tpw w ps s φ := by
  induction ps generalizing s with
  | nil => rfl
  | cons p ps ih =>
    have := ih (s + 1)
    simp only [esum, tpw, this]
    simp only [term2]

theorem sqsum_pairs : ∀ amps : List ℝ, sqsum (pairs 0 amps) = (amps.map (· ^ 2)).sum
  | [] => by simp [pairs, sqsum]
  | [a] => by simp [pairs, sqsum]
  | a :: b :: rest => by
    have ih := sqsum_pairs rest
    simp only [pairs, sqsum, List.map_cons, List.sum_cons] at ih ⊢
    rw [ih]; ring

theorem pairs_scale (c : ℝ) : ∀ amps : List ℝ,
    pairs 0 (amps.map (c * ·)) = (pairs 0 amps).map fun p => (c * p.1, c * p.2)
  | [] => by simp [pairs]
  | [a] => by simp [pairs]
  | a :: b :: rest => by
    have ih := pairs_scale c rest
    simp only [pairs, List.map_cons, ih]

/-- **The reported 2-D volume is the area enclosed by the interface-distance function**:
`π R² (1 + Σ a²/2) = ∫₀^{2π} ½ r(φ)² dφ` with `r = interface_distance`, for every mode count and all amplitudes. -/
theorem p2d_volume_is_area (R : ℝ) (amps : List ℝ) :
    p2d_volume R amps = ∫ φ in (0:ℝ)..(2 * π), (p2d_distance R amps φ) ^ 2 / 2 := by
  rw [p2d_volume_eq_spec]
  simp_rw [p2d_distance_eq_spec, esum_term2_eq_tp]
  rw [polar_area, sqsum_pairs]

/-- scaling all amplitudes by ε scales the perturbation -/
theorem p2d_distance_scaled (R ε φ : ℝ) (amps : List ℝ) :
    p2d_distance R (amps.map (ε * ·)) φ = R * (1 + ε * tp (pairs 0 amps) 1 φ) := by
  rw [p2d_distance_eq_spec, esum_term2_eq_tp, pairs_scale, tp_smul]

theorem p2d_curvature_scaled (R ε φ : ℝ) (amps : List ℝ) :
    p2d_curvature R (amps.map (ε * ·)) φ =
      1 / (R * (1 + ε * (tp (pairs 0 amps) 1 φ + tp (dmap 1 (dmap 1 (pairs 0 amps))) 1 φ))) := by
  rw [p2d_curvature_eq_spec, esum_w_eq_tpw, pairs_scale, tpw_smul, tp_add_dd]
  congr 2
  ring

/-- **The reported 2-D curvature agrees with the true curvature of the outline to first order in the
amplitudes**, for any radius, any number of modes and any direction.  With all amplitudes scaled by `ε`,
`r_ε = interface_distance` is the radius function of the outline `t ↦ centre + r_ε(t)(cos t, sin t)`
(`interface_position`), `r1`, `r2` are its first and second derivatives (proved), the true signed
curvature of that plane curve is `polarCurv r r' r''` (`polar_param_curv`), and

  * at `ε = 0` both the true and the reported curvature equal `1/R`;
  * their derivatives with respect to `ε` at `ε = 0` coincide. -/
theorem p2d_curvature_first_order (R φ : ℝ) (hR : 0 < R) (amps : List ℝ) :
    let r : ℝ → ℝ → ℝ := fun ε t => p2d_distance R (amps.map (ε * ·)) t
    let r1 : ℝ → ℝ → ℝ := fun ε t => R * (ε * tp (dmap 1 (pairs 0 amps)) 1 t)
    let r2 : ℝ → ℝ → ℝ := fun ε t => R * (ε * tp (dmap 1 (dmap 1 (pairs 0 amps))) 1 t)
    (∀ ε t, HasDerivAt (r ε) (r1 ε t) t) ∧ (∀ ε t, HasDerivAt (r1 ε) (r2 ε t) t) ∧
    polarCurv (r 0 φ) (r1 0 φ) (r2 0 φ) = 1 / R ∧ p2d_curvature R (amps.map ((0:ℝ) * ·)) φ = 1 / R ∧
    ∃ d, HasDerivAt (fun ε => polarCurv (r ε φ) (r1 ε φ) (r2 ε φ)) d 0 ∧
         HasDerivAt (fun ε => p2d_curvature R (amps.map (ε * ·)) φ) d 0 := by
  intro r r1 r2
  set ps := pairs 0 amps with hps
  have hr : ∀ ε t, r ε t = R * (1 + ε * tp ps 1 t) := fun ε t => p2d_distance_scaled R ε t amps
  refine ⟨?_, ?_, ?_, ?_, ?_⟩
  · intro ε t
    have h := ((tp_hasDerivAt ps 1 t).const_mul ε).const_add 1 |>.const_mul R
    have e : r ε = fun t => R * (1 + ε * tp ps 1 t) := funext (hr ε)
    rw [e]; exact h
  · intro ε t
    exact ((tp_hasDerivAt (dmap 1 ps) 1 t).const_mul ε).const_mul R
  · simp only [hr, r1, r2, polarCurv]
    simp only [zero_mul, add_zero, mul_one, mul_zero]
    rw [show R ^ 2 + 2 * 0 ^ 2 - 0 = R ^ 2 by ring, show R ^ 2 + (0:ℝ) ^ 2 = R ^ 2 by ring, Real.sqrt_sq hR.le]
    field_simp
  · rw [p2d_curvature_scaled]; simp
  · refine ⟨-(tp ps 1 φ + tp (dmap 1 (dmap 1 ps)) 1 φ) / R, ?_, ?_⟩
    · have := polarCurv_first_order R (tp ps 1 φ) (tp (dmap 1 ps) 1 φ) (tp (dmap 1 (dmap 1 ps)) 1 φ) hR
      have e : (fun ε => polarCurv (r ε φ) (r1 ε φ) (r2 ε φ)) = fun ε =>
          polarCurv (R * (1 + ε * tp ps 1 φ)) (R * (ε * tp (dmap 1 ps) 1 φ)) (R * (ε * tp (dmap 1 (dmap 1 ps)) 1 φ)) := by
        funext ε; simp only [hr, r1, r2, hps]
      rw [e]; exact this
    · have := codeCurv_first_order R (tp ps 1 φ) (tp (dmap 1 (dmap 1 ps)) 1 φ) hR
      have e : (fun ε => p2d_curvature R (amps.map (ε * ·)) φ) = fun ε =>
          1 / (R * (1 + ε * (tp ps 1 φ + tp (dmap 1 (dmap 1 ps)) 1 φ))) := by
        funext ε; exact p2d_curvature_scaled R ε φ amps
      rw [e]; exact this

/-! ### axisymmetric droplets: the reported curvature is the first-order mean curvature of the surface of revolution -/

theorem esum_add {β : Type} (g h : ℕ → β → ℝ) (xs : List β) (start : ℕ) :
    esum (fun n x => g n x + h n x) xs start = esum g xs start + esum h xs start := by
  induction xs generalizing start with
  | nil => simp [esum]
  | cons x xs ih => simp [esum, ih]; ring

theorem esum_map_scale (g : ℕ → ℝ) (ε : ℝ) (amps : List ℝ) (start : ℕ) :
    esum (fun l a => a * g l) (amps.map (ε * ·)) start = ε * esum (fun l a => a * g l) amps start := by
  induction amps generalizing start with
  | nil => simp [esum]
  | cons x xs ih => simp [esum, ih]; ring

/-- **The reported curvature of an axisymmetric perturbed droplet is the first-order mean curvature of its own surface.**
The surface of `PerturbedDroplet3DAxisSym` is the surface of revolution with polar profile `r(θ) = interface_distance(θ)` (regenerated
`axi_distance`); `Y l`, `Y1 l`, `Y2 l` are the values of the degree-`l` harmonic and of its first and second `θ`-derivative in the direction
considered, and the only property of the harmonics used is their defining differential equation — the spherical Laplacian eigen-equation
`Y'' + cot θ · Y' = −l(l+1) Y` (Legendre's equation in the polar angle).  With the amplitudes scaled by `ε`:

  * at `ε = 0` both the true mean curvature `revMeanCurv` and the reported curvature (regenerated `axi_curvature`) equal `1/R`;
  * their derivatives with respect to `ε` at `ε = 0` coincide: `(1/R) Σ_l a_l (l² + l − 2)/2 · Y_l`.

So the weight `(l² + l − 2)/2`, the sum over ALL modes and the overall `1/R` of the code (defects D7/D8 were exactly these) are what geometry
demands — for every radius, every number of modes, every direction. -/
theorem axi_curvature_first_order (R c : ℝ) (hR : 0 < R) (amps : List ℝ) (Y Y1 Y2 : ℕ → ℝ) (deg : ℕ → ℕ)
    (heig : ∀ l : ℕ, Y2 l + c * Y1 l = -((l : ℝ) * (l + 1)) * Y l) :
    let r : ℝ → ℝ := fun ε => axi_distance R (amps.map (ε * ·)) Y deg
    let r1 : ℝ → ℝ := fun ε => R * (ε * esum (fun l a => a * Y1 l) amps 1)
    let r2 : ℝ → ℝ := fun ε => R * (ε * esum (fun l a => a * Y2 l) amps 1)
    revMeanCurv (r 0) (r1 0) (r2 0) c = 1 / R ∧ axi_curvature R (amps.map ((0 : ℝ) * ·)) Y deg = 1 / R ∧
    ∃ d, HasDerivAt (fun ε => revMeanCurv (r ε) (r1 ε) (r2 ε) c) d 0 ∧
         HasDerivAt (fun ε => axi_curvature R (amps.map (ε * ·)) Y deg) d 0 := by
  intro r r1 r2
  set U := esum (fun l a => a * Y l) amps 1 with hU
  set U1 := esum (fun l a => a * Y1 l) amps 1 with hU1
  set U2 := esum (fun l a => a * Y2 l) amps 1 with hU2
  set H := esum (fun l a => a * hdeg l * Y l) amps 1 with hH
  have hr : ∀ ε, r ε = R * (1 + ε * U) := by
    intro ε
    simp only [r, (p3d_distance_eq_spec R _ Y deg).2, esum_map_scale]
    rfl
  have hcode : ∀ ε, axi_curvature R (amps.map (ε * ·)) Y deg = 1 / R + ε * H / R := by
    intro ε
    rw [axi_curvature_eq_spec]
    have : esum (fun l a => a * hdeg l * Y l) (amps.map (ε * ·)) 1 = ε * H := by
      have := esum_map_scale (fun l => hdeg l * Y l) ε amps 1
      simp only [← mul_assoc] at this
      exact this
    rw [this]
  -- the eigen-equation, summed over the modes
  have hsum : 2 * U + U2 + c * U1 = -2 * H := by
    have e1 : U2 + c * U1 = esum (fun l a => a * (Y2 l + c * Y1 l)) amps 1 := by
      rw [hU2, hU1, ← esum_smul, ← esum_add]
      congr 1; funext l a; ring
    have e2 : esum (fun l a => a * (Y2 l + c * Y1 l)) amps 1 = esum (fun l a => a * (-((l : ℝ) * (l + 1)) * Y l)) amps 1 := by
      congr 1; funext l a; rw [heig l]
    have e3 : 2 * U + esum (fun l a => a * (-((l : ℝ) * (l + 1)) * Y l)) amps 1 = -2 * H := by
      rw [hU, hH, ← esum_smul, ← esum_smul, ← esum_add]
      congr 1; funext l a; simp only [hdeg]; ring
    linarith
  refine ⟨?_, ?_, ?_⟩
  · simp only [hr, r1, r2, zero_mul, add_zero, mul_one, mul_zero]
    exact (revMeanCurv_first_order R 0 0 0 c hR).1
  · rw [hcode]; simp
  · refine ⟨H / R, ?_, ?_⟩
    · have h := (revMeanCurv_first_order R U U1 U2 c hR).2
      have e : (fun ε => revMeanCurv (r ε) (r1 ε) (r2 ε) c) = fun ε => revMeanCurv (R * (1 + ε * U)) (R * (ε * U1)) (R * (ε * U2)) c := by
        funext ε; simp only [hr, r1, r2]; rfl
      rw [e]
      refine h.congr_deriv ?_
      rw [hsum]; field_simp
    · have e : (fun ε => axi_curvature R (amps.map (ε * ·)) Y deg) = fun ε => 1 / R + H / R * ε + 0 * ε ^ 2 := by
        funext ε; rw [hcode]; ring
      rw [e]
      exact quad_deriv (1 / R) (H / R) 0


/-- **The reported curvature of a perturbed 3-D droplet is the first-order mean curvature of its own surface.**
The surface of `PerturbedDroplet3D` is the radial graph `r(θ, φ) e_r` with `r = interface_distance` (regenerated `p3d_distance`); `Y k`,
`Yt k`, `Yp k`, `Ytt k`, `Ytp k`, `Ypp k` are the values of mode `k` and of its partial derivatives in the direction considered (`s = sin θ > 0`,
`c = cos θ`), and the only property of the harmonics used is that mode `k` is an eigenfunction of the spherical Laplacian with eigenvalue
`−l(l+1)`, `l = deg k` its degree:  `Y_θθ + cot θ · Y_θ + Y_φφ / sin²θ = −l(l+1) Y`.  With the amplitudes scaled by `ε`, the true mean curvature
(`radialMeanCurv`: fundamental forms of the radial graph, cross-checked against the surface of revolution by `radialMeanCurv_axisym`) and the
reported curvature (regenerated `p3d_curvature`) both equal `1/R` at `ε = 0` and have the same `ε`-derivative there,
`(1/R) Σ_k a_k (l_k² + l_k − 2)/2 · Y_k` — for every radius, every number and combination of modes, every direction off the poles. -/
theorem p3d_curvature_first_order (R s c : ℝ) (hR : 0 < R) (hs : 0 < s) (amps : List ℝ) (Y Yt Yp Ytt Ytp Ypp : ℕ → ℝ) (deg : ℕ → ℕ)
    (heig : ∀ k : ℕ, Ytt k + c / s * Yt k + Ypp k / s ^ 2 = -((deg k : ℝ) * (deg k + 1)) * Y k) :
    let r : ℝ → ℝ := fun ε => p3d_distance R (amps.map (ε * ·)) Y deg
    let d1 : (ℕ → ℝ) → ℝ → ℝ := fun Z ε => R * (ε * esum (fun k a => a * Z k) amps 1)
    radialMeanCurv (r 0) (d1 Yt 0) (d1 Yp 0) (d1 Ytt 0) (d1 Ytp 0) (d1 Ypp 0) s c = 1 / R ∧
    p3d_curvature R (amps.map ((0 : ℝ) * ·)) Y deg = 1 / R ∧
    ∃ d, HasDerivAt (fun ε => radialMeanCurv (r ε) (d1 Yt ε) (d1 Yp ε) (d1 Ytt ε) (d1 Ytp ε) (d1 Ypp ε) s c) d 0 ∧
         HasDerivAt (fun ε => p3d_curvature R (amps.map (ε * ·)) Y deg) d 0 := by
  intro r d1
  set U := esum (fun k a => a * Y k) amps 1 with hU
  set Ut := esum (fun k a => a * Yt k) amps 1 with hUt
  set Upp := esum (fun k a => a * Ypp k) amps 1 with hUpp
  set Utt := esum (fun k a => a * Ytt k) amps 1 with hUtt
  set H := esum (fun k a => a * hdeg (deg k) * Y k) amps 1 with hH
  have hr : ∀ ε, r ε = R * (1 + ε * U) := by
    intro ε
    simp only [r, (p3d_distance_eq_spec R _ Y deg).1, esum_map_scale]
    rfl
  have hcode : ∀ ε, p3d_curvature R (amps.map (ε * ·)) Y deg = 1 / R + ε * H / R := by
    intro ε
    rw [p3d_curvature_eq_spec]
    have : esum (fun k a => a * hdeg (deg k) * Y k) (amps.map (ε * ·)) 1 = ε * H := by
      have := esum_map_scale (fun k => hdeg (deg k) * Y k) ε amps 1
      simp only [← mul_assoc] at this
      exact this
    rw [this]
  have hsum : 2 * U + (Utt + c / s * Ut + Upp / s ^ 2) = -2 * H := by
    have e1 : Utt + c / s * Ut + Upp / s ^ 2 = esum (fun k a => a * (Ytt k + c / s * Yt k + Ypp k / s ^ 2)) amps 1 := by
      have h3 : Upp / s ^ 2 = (1 / s ^ 2) * Upp := by ring
      rw [h3, hUtt, hUt, hUpp, ← esum_smul, ← esum_smul, ← esum_add, ← esum_add]
      congr 1; funext k a; ring
    have e2 : esum (fun k a => a * (Ytt k + c / s * Yt k + Ypp k / s ^ 2)) amps 1
        = esum (fun k a => a * (-((deg k : ℝ) * (deg k + 1)) * Y k)) amps 1 := by
      congr 1; funext k a; rw [heig k]
    have e3 : 2 * U + esum (fun k a => a * (-((deg k : ℝ) * (deg k + 1)) * Y k)) amps 1 = -2 * H := by
      rw [hU, hH, ← esum_smul, ← esum_smul, ← esum_add]
      congr 1; funext k a; simp only [hdeg]; ring
    linarith
  refine ⟨?_, ?_, ?_⟩
  · simp only [hr, d1, zero_mul, add_zero, mul_one, mul_zero]
    exact (radialMeanCurv_first_order R 0 0 0 0 0 0 s c hR hs).1
  · rw [hcode]; simp
  · refine ⟨H / R, ?_, ?_⟩
    · have h := (radialMeanCurv_first_order R U Ut (esum (fun k a => a * Yp k) amps 1) Utt (esum (fun k a => a * Ytp k) amps 1) Upp s c hR hs).2
      have e : (fun ε => radialMeanCurv (r ε) (d1 Yt ε) (d1 Yp ε) (d1 Ytt ε) (d1 Ytp ε) (d1 Ypp ε) s c) = fun ε =>
          radialMeanCurv (R * (1 + ε * U)) (R * (ε * Ut)) (R * (ε * esum (fun k a => a * Yp k) amps 1)) (R * (ε * Utt))
            (R * (ε * esum (fun k a => a * Ytp k) amps 1)) (R * (ε * Upp)) s c := by
        funext ε; simp only [hr, d1]; rfl
      rw [e]
      refine h.congr_deriv ?_
      rw [hsum]; field_simp
    · have e : (fun ε => p3d_curvature R (amps.map (ε * ·)) Y deg) = fun ε => 1 / R + H / R * ε + 0 * ε ^ 2 := by
        funext ε; rw [hcode]; ring
      rw [e]
      exact quad_deriv (1 / R) (H / R) 0

section axivolume
open intervalIntegral MeasureTheory

theorem esum_profile_mean_zero (Y Y1 Y2 : ℕ → ℝ → ℝ)
    (hY : ∀ l, 1 ≤ l → (∀ t, HasDerivAt (Y l) (Y1 l t) t) ∧ (∀ t, HasDerivAt (Y1 l) (Y2 l t) t) ∧ Continuous (Y2 l) ∧
      ∀ t, sin t * Y2 l t + cos t * Y1 l t = -((l : ℝ) * (l + 1)) * (sin t * Y l t))
    (amps : List ℝ) (start : ℕ) (hs : 1 ≤ start) :
    Continuous (fun t => esum (fun l a => a * Y l t) amps start) ∧
    ∫ t in (0 : ℝ)..π, esum (fun l a => a * Y l t) amps start * sin t = 0 := by
  induction amps generalizing start with
  | nil => simp [esum, continuous_const]
  | cons a rest ih =>
    obtain ⟨hc, hi⟩ := ih (start + 1) (by omega)
    obtain ⟨h1, h2, h3, h4⟩ := hY start hs
    have hYc : Continuous (Y start) := continuous_iff_continuousAt.mpr fun t => (h1 t).continuousAt
    have hz := zonal_mean_zero (Y start) (Y1 start) (Y2 start) start hs h1 h2 h3 h4
    refine ⟨?_, ?_⟩
    · simp only [esum]; exact (continuous_const.mul hYc).add hc
    · simp only [esum]
      have e : (fun t => (a * Y start t + esum (fun l a => a * Y l t) rest (start + 1)) * sin t) = fun t =>
          a * (Y start t * sin t) + esum (fun l a => a * Y l t) rest (start + 1) * sin t := by funext t; ring
      have i1 : IntervalIntegrable (fun t => a * (Y start t * sin t)) volume 0 π :=
        (show Continuous fun t => a * (Y start t * sin t) from continuous_const.mul (hYc.mul continuous_sin)).intervalIntegrable _ _
      have i2 : IntervalIntegrable (fun t => esum (fun l a => a * Y l t) rest (start + 1) * sin t) volume 0 π :=
        (show Continuous fun t => esum (fun l a => a * Y l t) rest (start + 1) * sin t from hc.mul continuous_sin).intervalIntegrable _ _
      rw [e, intervalIntegral.integral_add i1 i2, intervalIntegral.integral_const_mul, hz, hi]
      ring

/-- **The volume of an axisymmetric perturbed droplet has no first-order term — `volume_approx` is the sphere's volume for a reason.**
The solid bounded by the surface of `PerturbedDroplet3DAxisSym` (polar profile = regenerated `axi_distance`, now as a function of the polar angle:
`Y l t` is the degree-`l` harmonic at `θ = t`) has the volume `revVolume`.  Using only the eigen-equation of the harmonics (as for the curvature) —
which forces every zonal harmonic of degree `l ≥ 1` to have zero mean over the sphere (`zonal_mean_zero`) — the true volume at `ε = 0` is the
reported `axi_volume_approx`, and its `ε`-derivative at `0` vanishes, like that of the reported value, which does not depend on the amplitudes:
the spurious first-order term of defect D9 contradicts geometry. -/
theorem axi_volume_first_order (R : ℝ) (amps : List ℝ) (Y Y1 Y2 : ℕ → ℝ → ℝ) (deg : ℕ → ℕ)
    (hY : ∀ l, 1 ≤ l → (∀ t, HasDerivAt (Y l) (Y1 l t) t) ∧ (∀ t, HasDerivAt (Y1 l) (Y2 l t) t) ∧ Continuous (Y2 l) ∧
      ∀ t, sin t * Y2 l t + cos t * Y1 l t = -((l : ℝ) * (l + 1)) * (sin t * Y l t)) :
    revVolume (fun t => axi_distance R (amps.map ((0 : ℝ) * ·)) (fun l => Y l t) deg) = axi_volume_approx R amps ∧
    HasDerivAt (fun ε : ℝ => revVolume (fun t => axi_distance R (amps.map (ε * ·)) (fun l => Y l t) deg)) 0 0 ∧
    HasDerivAt (fun ε : ℝ => axi_volume_approx R (amps.map (ε * ·))) 0 0 := by
  obtain ⟨hc, hm⟩ := esum_profile_mean_zero Y Y1 Y2 hY amps 1 le_rfl
  have hprof : ∀ ε t, axi_distance R (amps.map (ε * ·)) (fun l => Y l t) deg = R * (1 + ε * esum (fun l a => a * Y l t) amps 1) := by
    intro ε t
    rw [(p3d_distance_eq_spec R _ (fun l => Y l t) deg).2, esum_map_scale]
  obtain ⟨hv0, hv1⟩ := revVolume_first_order R (fun t => esum (fun l a => a * Y l t) amps 1) hc hm
  refine ⟨?_, ?_, ?_⟩
  · have e : (fun t => axi_distance R (amps.map ((0 : ℝ) * ·)) (fun l => Y l t) deg) = fun _ => R := by
      funext t; rw [hprof]; ring
    rw [e, hv0, (volume_approx_eq_spec R amps).2]
  · have e : (fun ε : ℝ => revVolume (fun t => axi_distance R (amps.map (ε * ·)) (fun l => Y l t) deg)) =
        fun ε => revVolume (fun t => R * (1 + ε * esum (fun l a => a * Y l t) amps 1)) := by
      funext ε; congr 1; funext t; exact hprof ε t
    rw [e]; exact hv1
  · have e : (fun ε : ℝ => axi_volume_approx R (amps.map (ε * ·))) = fun _ => 4 / 3 * Real.pi * R ^ 3 := by
      funext ε; exact (volume_approx_eq_spec R _).2
    rw [e]; exact hasDerivAt_const _ _

end axivolume

section p3dvolume
open intervalIntegral MeasureTheory

/-- the harmonics of the general 3-D droplet as functions on the sphere: what the volume theorem assumes of mode `k` (degree `deg k ≥ 1`) -/
def HarmonicOnSphere (l : ℕ) (Y Yt Ytt Yp Ypp : ℝ → ℝ → ℝ) : Prop :=
  Continuous (Function.uncurry Y) ∧ Continuous (Function.uncurry Yt) ∧ Continuous (Function.uncurry Ytt) ∧
  (∀ θ φ, HasDerivAt (fun θ => Y θ φ) (Yt θ φ) θ) ∧ (∀ θ φ, HasDerivAt (fun θ => Yt θ φ) (Ytt θ φ) θ) ∧
  (∀ θ φ, HasDerivAt (fun φ => Y θ φ) (Yp θ φ) φ) ∧ (∀ θ φ, HasDerivAt (fun φ => Yp θ φ) (Ypp θ φ) φ) ∧
  (∀ θ, Continuous (Ypp θ)) ∧ (∀ θ, Yp θ (2 * Real.pi) = Yp θ 0) ∧
  ∀ θ φ, sin θ * (sin θ * Ytt θ φ + cos θ * Yt θ φ) + Ypp θ φ = -((l : ℝ) * (l + 1)) * (sin θ ^ 2 * Y θ φ)

theorem esum_profile2_mean_zero (Y Yt Ytt Yp Ypp : ℕ → ℝ → ℝ → ℝ) (deg : ℕ → ℕ)
    (hdeg : ∀ k, 1 ≤ k → 1 ≤ deg k)
    (hY : ∀ k, 1 ≤ k → HarmonicOnSphere (deg k) (Y k) (Yt k) (Ytt k) (Yp k) (Ypp k))
    (amps : List ℝ) (start : ℕ) (hs : 1 ≤ start) :
    Continuous (Function.uncurry fun θ φ => esum (fun k a => a * Y k θ φ) amps start) ∧
    ∫ θ in (0 : ℝ)..π, (∫ φ in (0 : ℝ)..(2 * π), esum (fun k a => a * Y k θ φ) amps start) * sin θ = 0 := by
  induction amps generalizing start with
  | nil => exact ⟨by simp only [esum]; fun_prop, by simp [esum]⟩
  | cons a rest ih =>
    obtain ⟨hc, hi⟩ := ih (start + 1) (by omega)
    obtain ⟨hYc, hYtc, hYttc, h1, h2, _, h4, hppc, hper, heig⟩ := hY start hs
    have hz := harmonic_mean_zero (Y start) (Yt start) (Ytt start) (Yp start) (Ypp start) (deg start) (hdeg start hs)
      (fun θ => hYc.comp (continuous_const.prodMk continuous_id)) hYtc hYttc h1 h2 h4 hppc hper heig
    have hsum : Continuous (Function.uncurry fun θ φ => a * Y start θ φ + esum (fun k a => a * Y k θ φ) rest (start + 1)) :=
      (continuous_const.mul hYc).add hc
    refine ⟨by simpa only [esum] using hsum, ?_⟩
    simp only [esum]
    have sec1 : ∀ θ, IntervalIntegrable (fun φ => a * Y start θ φ) volume 0 (2 * π) := fun θ =>
      (show Continuous fun φ => a * Y start θ φ from
        continuous_const.mul (hYc.comp (continuous_const.prodMk continuous_id))).intervalIntegrable _ _
    have sec2 : ∀ θ, IntervalIntegrable (fun φ => esum (fun k a => a * Y k θ φ) rest (start + 1)) volume 0 (2 * π) := fun θ =>
      (show Continuous fun φ => esum (fun k a => a * Y k θ φ) rest (start + 1) from
        hc.comp (continuous_const.prodMk continuous_id)).intervalIntegrable _ _
    have e : (fun θ => (∫ φ in (0 : ℝ)..(2 * π), (a * Y start θ φ + esum (fun k a => a * Y k θ φ) rest (start + 1))) * sin θ) = fun θ =>
        a * ((∫ φ in (0 : ℝ)..(2 * π), Y start θ φ) * sin θ)
          + (∫ φ in (0 : ℝ)..(2 * π), esum (fun k a => a * Y k θ φ) rest (start + 1)) * sin θ := by
      funext θ
      rw [intervalIntegral.integral_add (sec1 θ) (sec2 θ), intervalIntegral.integral_const_mul]; ring
    have c1 : Continuous fun θ => ∫ φ in (0 : ℝ)..(2 * π), Y start θ φ :=
      intervalIntegral.continuous_parametric_intervalIntegral_of_continuous' hYc 0 (2 * π)
    have c2 : Continuous fun θ => ∫ φ in (0 : ℝ)..(2 * π), esum (fun k a => a * Y k θ φ) rest (start + 1) :=
      intervalIntegral.continuous_parametric_intervalIntegral_of_continuous' hc 0 (2 * π)
    have i1 : IntervalIntegrable (fun θ => a * ((∫ φ in (0 : ℝ)..(2 * π), Y start θ φ) * sin θ)) volume 0 π :=
      (continuous_const.mul (c1.mul continuous_sin)).intervalIntegrable _ _
    have i2 : IntervalIntegrable (fun θ => (∫ φ in (0 : ℝ)..(2 * π), esum (fun k a => a * Y k θ φ) rest (start + 1)) * sin θ) volume 0 π :=
      (c2.mul continuous_sin).intervalIntegrable _ _
    rw [e, intervalIntegral.integral_add i1 i2, intervalIntegral.integral_const_mul, hz, hi]
    ring

/-- **The volume of a general (non-axisymmetric) perturbed 3-D droplet has no first-order term — `volume_approx` of `PerturbedDroplet3D` is
the sphere's volume for a reason.**  The solid bounded by the radial graph `r(θ, φ)` = regenerated `p3d_distance` (`Y k θ φ` is mode `k` in the
direction `(θ, φ)`) has the volume `sphVolume = (1/3)∫∫ r³ sin θ`.  The only facts about the harmonics that are used are their eigen-equation
`Δ_S Y_k = −l_k(l_k + 1) Y_k` (written without division by `sin θ`), `l_k ≥ 1` for the modes `k ≥ 1` that carry amplitudes, and 2π-periodicity of
`∂Y/∂φ` in the azimuth; they force zero mean over the sphere (`harmonic_mean_zero`: the azimuthal average is a zonal eigenfunction).  Hence
the true volume at `ε = 0` is the reported `p3d_volume_approx` and its `ε`-derivative vanishes, like that of the reported value. -/
theorem p3d_volume_first_order (R : ℝ) (amps : List ℝ) (Y Yt Ytt Yp Ypp : ℕ → ℝ → ℝ → ℝ) (deg : ℕ → ℕ)
    (hdeg : ∀ k, 1 ≤ k → 1 ≤ deg k)
    (hY : ∀ k, 1 ≤ k → HarmonicOnSphere (deg k) (Y k) (Yt k) (Ytt k) (Yp k) (Ypp k)) :
    sphVolume (fun θ φ => p3d_distance R (amps.map ((0 : ℝ) * ·)) (fun k => Y k θ φ) deg) = p3d_volume_approx R amps ∧
    HasDerivAt (fun ε : ℝ => sphVolume (fun θ φ => p3d_distance R (amps.map (ε * ·)) (fun k => Y k θ φ) deg)) 0 0 ∧
    HasDerivAt (fun ε : ℝ => p3d_volume_approx R (amps.map (ε * ·))) 0 0 := by
  obtain ⟨hc, hm⟩ := esum_profile2_mean_zero Y Yt Ytt Yp Ypp deg hdeg hY amps 1 le_rfl
  have hprof : ∀ ε θ φ, p3d_distance R (amps.map (ε * ·)) (fun k => Y k θ φ) deg
      = R * (1 + ε * esum (fun k a => a * Y k θ φ) amps 1) := by
    intro ε θ φ
    rw [(p3d_distance_eq_spec R _ (fun k => Y k θ φ) deg).1, esum_map_scale]
  obtain ⟨hv0, hv1⟩ := sphVolume_first_order R (fun θ φ => esum (fun k a => a * Y k θ φ) amps 1) hc hm
  refine ⟨?_, ?_, ?_⟩
  · have e : (fun θ φ => p3d_distance R (amps.map ((0 : ℝ) * ·)) (fun k => Y k θ φ) deg) = fun _ _ => R := by
      funext θ φ; rw [hprof]; ring
    rw [e, hv0, (volume_approx_eq_spec R amps).1]
  · have e : (fun ε : ℝ => sphVolume (fun θ φ => p3d_distance R (amps.map (ε * ·)) (fun k => Y k θ φ) deg)) =
        fun ε => sphVolume (fun θ φ => R * (1 + ε * esum (fun k a => a * Y k θ φ) amps 1)) := by
      funext ε; congr 1; funext θ φ; exact hprof ε θ φ
    rw [e]; exact hv1
  · have e : (fun ε : ℝ => p3d_volume_approx R (amps.map (ε * ·))) = fun _ => 4 / 3 * Real.pi * R ^ 3 := by
      funext ε; exact (volume_approx_eq_spec R _).1
    rw [e]; exact hasDerivAt_const _ _

/-- non-vacuity: `Y₁₀ ∝ cos θ` (degree 1, no azimuthal dependence) meets every hypothesis -/
example : HarmonicOnSphere 1 (fun θ _ => cos θ) (fun θ _ => -sin θ) (fun θ _ => -cos θ) (fun _ _ => 0) (fun _ _ => 0) := by
  refine ⟨by fun_prop, by fun_prop, by fun_prop, fun θ _ => hasDerivAt_cos θ, fun θ _ => (hasDerivAt_sin θ).neg,
    fun _ φ => hasDerivAt_const φ _, fun _ φ => hasDerivAt_const φ _, fun _ => continuous_const, fun _ => rfl, ?_⟩
  intro θ φ; push_cast; ring

/-- non-vacuity with azimuthal dependence: `Y₁₁ ∝ sin θ cos φ` -/
example : HarmonicOnSphere 1 (fun θ φ => sin θ * cos φ) (fun θ φ => cos θ * cos φ) (fun θ φ => -sin θ * cos φ)
    (fun θ φ => sin θ * -sin φ) (fun θ φ => sin θ * -cos φ) := by
  refine ⟨by fun_prop, by fun_prop, by fun_prop, fun θ φ => (hasDerivAt_sin θ).mul_const _, fun θ φ => (hasDerivAt_cos θ).mul_const _,
    fun θ φ => (hasDerivAt_cos φ).const_mul _, fun θ φ => ((hasDerivAt_sin φ).neg).const_mul _, fun _ => by fun_prop, fun θ => by simp, ?_⟩
  intro θ φ
  have := sin_sq_add_cos_sq θ
  push_cast; linear_combination (sin θ * cos φ) * this

end p3dvolume

section perimeter2d
open intervalIntegral MeasureTheory

/-- `surface_area_approx` of the code: `π R (4 + Σ_n n² (a_n² + b_n²)) / 2` -/
theorem p2d_surface_approx_eq_spec (R : ℝ) (amps : List ℝ) :
    p2d_surface_approx R amps = Real.pi * R * (4 + esum (fun n ab => (n : ℝ) ^ 2 * (ab.1 ^ 2 + ab.2 ^ 2)) (pairs 0 amps) 1) / 2 := by
  simp only [p2d_surface_approx, dnum_lit, dnum_pi, dnum_npow]
  rw [foldEnum_add]
  norm_num

theorem esum_pairs_sq_scale (c : ℝ) (ps : List (ℝ × ℝ)) (s : ℕ) :
    esum (fun n ab => (n : ℝ) ^ 2 * (ab.1 ^ 2 + ab.2 ^ 2)) (ps.map fun p => (c * p.1, c * p.2)) s
      = c ^ 2 * esum (fun n ab => (n : ℝ) ^ 2 * (ab.1 ^ 2 + ab.2 ^ 2)) ps s := by
  induction ps generalizing s with
  | nil => simp [esum]
  | cons p ps ih => simp only [List.map_cons, esum, ih]; ring

/-- **The perimeter of a perturbed 2-D droplet has no first-order term — like the reported `surface_area_approx`.**  The outline is the polar
curve `r(φ)` = regenerated `p2d_distance` with derivative `r'(φ)`; its true perimeter `∫ √(r² + r'²)` and the reported value agree at `ε = 0`
(both `2πR`) and both have the `ε`-derivative 0 there (amplitudes scaled by `ε`): the true perimeter is squeezed between `2πR` and
`2πR(1 + m₁² ε²)` for small `ε` (`perimeter_sandwich`; no zeroth mode, so the perturbation has zero mean).  The quadratic coefficient
`Σ n²(a² + b²)/4` of the code is not compared here (validated numerically by the harness against the arc length). -/
theorem p2d_perimeter_first_order (R : ℝ) (hR : 0 < R) (amps : List ℝ) :
    let P : ℝ → ℝ := fun ε => polarPerimeter (fun φ => p2d_distance R (amps.map (ε * ·)) φ)
      (fun φ => R * (ε * tp (dmap 1 (pairs 0 amps)) 1 φ))
    (∀ ε φ, HasDerivAt (fun t => p2d_distance R (amps.map (ε * ·)) t) (R * (ε * tp (dmap 1 (pairs 0 amps)) 1 φ)) φ) ∧
    P 0 = 2 * Real.pi * R ∧ p2d_surface_approx R (amps.map ((0 : ℝ) * ·)) = 2 * Real.pi * R ∧
    HasDerivAt P 0 0 ∧ HasDerivAt (fun ε => p2d_surface_approx R (amps.map (ε * ·))) 0 0 := by
  intro P
  set ps := pairs 0 amps with hps
  set u := tp ps 1 with hu
  set u1 := tp (dmap 1 ps) 1 with hu1
  have hr : ∀ ε, (fun φ => p2d_distance R (amps.map (ε * ·)) φ) = fun φ => R * (1 + ε * u φ) := by
    intro ε; funext φ; exact p2d_distance_scaled R ε φ amps
  have hP : ∀ ε, P ε = polarPerimeter (fun φ => R * (1 + ε * u φ)) (fun φ => R * (ε * u1 φ)) := by
    intro ε; simp only [P, hr]; rfl
  have hmean : ∫ x in (0:ℝ)..(2 * Real.pi), u x = 0 := (tp_orth ps 1 le_rfl).1
  have hsand := fun ε hε => perimeter_sandwich R hR u u1 (tp_continuous ps 1) (tp_continuous _ 1) (l1 ps) (l1 (dmap 1 ps))
    (fun x => tp_bound ps 1 x) (fun x => tp_bound _ 1 x) hmean ε hε
  have hP0 : P 0 = 2 * Real.pi * R := by
    have := hsand 0 (by simp)
    rw [hP]; simp only [ne_eq, OfNat.ofNat_ne_zero, not_false_eq_true, zero_pow, mul_zero, add_zero] at this
    linarith [this.1, this.2]
  have hcode : ∀ ε, p2d_surface_approx R (amps.map (ε * ·)) =
      2 * Real.pi * R + 0 * ε + (Real.pi * R * esum (fun n ab => (n : ℝ) ^ 2 * (ab.1 ^ 2 + ab.2 ^ 2)) ps 1 / 2) * ε ^ 2 := by
    intro ε
    rw [p2d_surface_approx_eq_spec, pairs_scale, esum_pairs_sq_scale]; ring
  refine ⟨?_, hP0, ?_, ?_, ?_⟩
  · intro ε φ
    have h := ((tp_hasDerivAt ps 1 φ).const_mul ε).const_add 1 |>.const_mul R
    rw [hr ε]; exact h
  · rw [hcode]; ring
  · -- squeeze
    have hδ : 0 < 1 / (2 * (l1 ps + 1)) := by
      have : 0 ≤ l1 ps := le_trans (abs_nonneg _) (tp_bound ps 1 0)
      positivity
    apply hasDerivAt_zero_of_sq_bound P (2 * Real.pi * R * l1 (dmap 1 ps) ^ 2) _ hδ
    intro ε hε
    have hl : 0 ≤ l1 ps := le_trans (abs_nonneg _) (tp_bound ps 1 0)
    have hεm : |ε| * l1 ps ≤ 1 / 2 := by
      have h1 : |ε| * l1 ps ≤ 1 / (2 * (l1 ps + 1)) * l1 ps := mul_le_mul_of_nonneg_right hε hl
      have h2 : 1 / (2 * (l1 ps + 1)) * l1 ps ≤ 1 / 2 := by
        rw [div_mul_eq_mul_div, div_le_div_iff₀ (by positivity) (by norm_num)]; nlinarith
      linarith
    obtain ⟨lo, hi⟩ := hsand ε hεm
    rw [hP0, hP, abs_le]
    constructor <;> nlinarith [sq_nonneg ε, sq_nonneg (l1 (dmap 1 ps)), Real.pi_pos]
  · have e : (fun ε => p2d_surface_approx R (amps.map (ε * ·))) = fun ε =>
        2 * Real.pi * R + 0 * ε + (Real.pi * R * esum (fun n ab => (n : ℝ) ^ 2 * (ab.1 ^ 2 + ab.2 ^ 2)) ps 1 / 2) * ε ^ 2 := funext hcode
    rw [e]; exact quad_deriv _ _ _

end perimeter2d

/-- non-vacuity: the degree-2 zonal harmonic `(3cos²θ − 1)/2` on the equator (`cot θ = 0`): value −½, first derivative 0, second derivative 3,
and `3 = −2·3·(−½)` — the eigen-equation holds, the mode contributes `h(2) = 2` times its value -/
example : ∃ d : ℝ, HasDerivAt (fun ε : ℝ => axi_curvature (2 : ℝ) (([0, 1] : List ℝ).map (ε * ·)) (fun l => if l = 2 then -1/2 else 0) (fun l => l)) d 0 ∧ d = -1/2 := by
  obtain ⟨_, _, d, h1, h2⟩ := axi_curvature_first_order (2 : ℝ) 0 (by norm_num) ([0, 1] : List ℝ) (fun l => if l = 2 then -1/2 else 0) (fun _ => 0)
    (fun l => if l = 2 then 3 else 0) (fun l => l) (by intro l; by_cases h : l = 2 <;> simp [h]; norm_num)
  refine ⟨d, h2, ?_⟩
  have e : (fun ε : ℝ => axi_curvature (2 : ℝ) (([0, 1] : List ℝ).map (ε * ·)) (fun l => if l = 2 then -1/2 else 0) (fun l => l)) = fun ε => 1 / 2 + (-1/2) * ε + 0 * ε ^ 2 := by
    funext ε; rw [axi_curvature_eq_spec]; simp [esum, hdeg]; ring
  rw [e] at h2
  exact h2.unique (DV.Fourier.quad_deriv _ _ _)

end DV.C13
