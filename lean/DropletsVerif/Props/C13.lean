/-
  C13 — A perturbed droplet's volume, surface, curvature and outline match its shape.
  Theorems over `ℝ` about `Generated/Perturbed.lean` (regenerated on every run from the loops of
  PerturbedDroplet2D / 3D / 3DAxisSym: `=` vs `+=`, the `if a != 0` guards, the powers of the
  radius are whatever the source says NOW).  Spherical harmonics enter as an arbitrary table
  `Y : ℕ → ℝ` (value of mode k in the direction considered), so every statement holds for any
  direction and any harmonics.

  The specification side is short and readable:
    distance   R · (1 + Σ_k a_k B_k)
    curvature  2-D: 1 / (R · (1 − Σ_n (n²−1)(a_n sin nφ + b_n cos nφ)))
               3-D: 1/R + (1/R) Σ_k a_k (l_k² + l_k − 2)/2 · Y_k       (l_k = degree of mode k)
    volume     2-D: π R² (1 + Σ a²/2);   3-D approximate: 4π/3 R³ (no first-order term)
  That these are the first-order expansions of the true mean curvature / volume is classical
  differential geometry (H[R(1+εu)] = 1/R − ε(2u + Δ_S u)/(2R) + O(ε²), Δ_S Y_lm = −l(l+1) Y_lm,
  ∫Y_lm = 0 for l ≥ 1); Mathlib has no spherical harmonics, so that link is validated numerically
  by the harness (finite-difference mean curvature, quadrature volumes), not proved here.
-/
import DropletsVerif.Lemmas.RealInst
import DropletsVerif.Generated.Perturbed
import DropletsVerif.Lemmas.Fourier
import Mathlib.Tactic

namespace DV.C13
open DV DV.Gen

/-! ### sums over enumerated amplitudes -/

/-- `Σ_i g (start + i) xs[i]` -/
def esum {β : Type} (g : ℕ → β → ℝ) : List β → ℕ → ℝ
  | [], _ => 0
  | x :: xs, start => g start x + esum g xs (start + 1)

theorem foldEnum_add {β : Type} (g : ℕ → β → ℝ) (xs : List β) (init : ℝ) (start : ℕ) :
    foldEnum (fun acc n x => acc + g n x) init xs start = init + esum g xs start := by
  induction xs generalizing init start with
  | nil => simp [foldEnum, esum]
  | cons x xs ih => simp [foldEnum, esum, ih]; ring

theorem foldEnum_congr {β : Type} (f f' : ℝ → ℕ → β → ℝ) (h : ∀ acc n x, f acc n x = f' acc n x)
    (xs : List β) (init : ℝ) (start : ℕ) : foldEnum f init xs start = foldEnum f' init xs start := by
  induction xs generalizing init start with
  | nil => rfl
  | cons x xs ih => simp [foldEnum, h, ih]

theorem esum_smul {β : Type} (g : ℕ → β → ℝ) (c : ℝ) (xs : List β) (start : ℕ) :
    esum (fun n x => c * g n x) xs start = c * esum g xs start := by
  induction xs generalizing start with
  | nil => simp [esum]
  | cons x xs ih => simp [esum, ih]; ring

theorem esum_zero {β : Type} (g : ℕ → β → ℝ) (xs : List β) (start : ℕ) (h : ∀ n, ∀ x ∈ xs, g n x = 0) :
    esum g xs start = 0 := by
  induction xs generalizing start with
  | nil => rfl
  | cons x xs ih =>
    simp [esum, h start x List.mem_cons_self, ih (start + 1) (fun n y hy => h n y (List.mem_cons_of_mem _ hy))]

/-! ### 2-D -/

/-- harmonic of mode `n` with the amplitude pair `(a, b)` -/
noncomputable def term2 (φ : ℝ) (n : ℕ) (ab : ℝ × ℝ) : ℝ :=
  ab.1 * Real.sin (n * φ) + ab.2 * Real.cos (n * φ)

/-- **Interface distance = R (1 + Σ_n a_n sin nφ + b_n cos nφ)**; the `if a != 0` guards are no-ops -/
theorem p2d_distance_eq_spec (R φ : ℝ) (amps : List ℝ) :
    p2d_distance R amps φ = R * (1 + esum (term2 φ) (pairs 0 amps) 1) := by
  unfold p2d_distance
  simp only [dnum_lit, dnum_sin, dnum_cos, dnum_eqz_false]
  rw [foldEnum_congr _ (fun acc n ab => acc + term2 φ n ab), foldEnum_add]
  · simp
  · intro acc n ab
    by_cases h1 : ab.1 = 0 <;> by_cases h2 : ab.2 = 0 <;> simp [term2, h1, h2] <;> ring

/-- **Linearised curvature in 2-D = 1 / (R (1 − Σ_n (n²−1)(a_n sin nφ + b_n cos nφ)))** -/
theorem p2d_curvature_eq_spec (R φ : ℝ) (amps : List ℝ) :
    p2d_curvature R amps φ =
      1 / (R * (1 - esum (fun n ab => ((n : ℝ) * n - 1) * term2 φ n ab) (pairs 0 amps) 1)) := by
  unfold p2d_curvature
  simp only [dnum_lit, dnum_sin, dnum_cos, dnum_eqz_false, Nat.cast_one, Nat.cast_zero]
  rw [foldEnum_congr _ (fun acc n ab => acc + (-(((n : ℝ) * n - 1) * term2 φ n ab))), foldEnum_add]
  · have : esum (fun n ab => -(((n : ℝ) * n - 1) * term2 φ n ab)) (pairs 0 amps) 1 =
        -esum (fun n ab => ((n : ℝ) * n - 1) * term2 φ n ab) (pairs 0 amps) 1 := by
      have := esum_smul (fun n ab => ((n : ℝ) * n - 1) * term2 φ n ab) (-1) (pairs 0 amps) 1
      simpa using this
    rw [this, ← sub_eq_add_neg]
  · intro acc n ab
    by_cases h1 : ab.1 = 0 <;> by_cases h2 : ab.2 = 0 <;> simp [term2, h1, h2] <;> ring

/-- **2-D volume = π R² (1 + Σ a²/2)** -/
theorem p2d_volume_eq_spec (R : ℝ) (amps : List ℝ) :
    p2d_volume R amps = Real.pi * R ^ 2 * (1 + (amps.map (· ^ 2)).sum / 2) := by
  unfold p2d_volume
  simp only [dnum_lit, dnum_pi, dnum_npow]
  have : ∀ (l : List ℝ) (init : ℝ), List.foldl (fun acc x => acc + x ^ 2) init l = init + (l.map (· ^ 2)).sum := by
    intro l
    induction l with
    | nil => simp
    | cons x l ih => intro init; simp [ih]; ring
  rw [this]; simp

/-- **Setting the volume and reading it back returns the value set** (relative perturbations kept) -/
theorem p2d_volume_setter_getter (v : ℝ) (hv : 0 ≤ v) (amps : List ℝ) :
    p2d_volume (p2d_set_volume v amps) amps = v := by
  rw [p2d_volume_eq_spec]
  unfold p2d_set_volume
  simp only [dnum_lit, dnum_pi, dnum_npow, dnum_sqrt, Nat.cast_one, Nat.cast_zero, Nat.cast_ofNat]
  have hfold : ∀ (l : List ℝ) (init : ℝ), List.foldl (fun acc x => acc + x ^ 2) init l = init + (l.map (· ^ 2)).sum := by
    intro l
    induction l with
    | nil => simp
    | cons x l ih => intro init; simp [ih]; ring
  rw [hfold]
  have hs : 0 ≤ (amps.map (· ^ 2)).sum := by
    apply List.sum_nonneg
    intro x hx
    obtain ⟨y, _, rfl⟩ := List.mem_map.mp hx
    positivity
  have hT : 0 < 1 + (0 + (amps.map (· ^ 2)).sum) / 2 := by linarith
  have hpos : 0 ≤ v / (Real.pi * (1 + (0 + (amps.map (· ^ 2)).sum) / 2)) :=
    div_nonneg hv (mul_nonneg Real.pi_pos.le hT.le)
  rw [Real.sq_sqrt hpos]
  have hpi := Real.pi_pos
  field_simp
  ring

/-! ### 3-D and axisymmetric: sums over single amplitudes with an arbitrary harmonic table -/

/-- **Interface distance = R (1 + Σ_k a_k Y_k)** -/
theorem p3d_distance_eq_spec (R : ℝ) (amps : List ℝ) (Y : ℕ → ℝ) (deg : ℕ → ℕ) :
    p3d_distance R amps Y deg = R * (1 + esum (fun k a => a * Y k) amps 1) ∧
    axi_distance R amps Y deg = R * (1 + esum (fun k a => a * Y k) amps 1) := by
  constructor <;>
  · simp only [p3d_distance, axi_distance, dnum_lit, dnum_eqz_false]
    rw [foldEnum_congr _ (fun acc k a => acc + a * Y k), foldEnum_add]
    · simp
    · intro acc k a
      by_cases h : a = 0 <;> simp [h]

/-- linearised curvature weight of a mode of degree `l` -/
noncomputable def hdeg (l : ℕ) : ℝ := ((l : ℝ) ^ 2 + l - 2) / 2

/-- **Linearised mean curvature in 3-D = 1/R + (1/R) Σ_k a_k h(l_k) Y_k: ALL modes contribute and
the correction scales like 1/R** -/
theorem p3d_curvature_eq_spec (R : ℝ) (amps : List ℝ) (Y : ℕ → ℝ) (deg : ℕ → ℕ) :
    p3d_curvature R amps Y deg = 1 / R + esum (fun k a => a * hdeg (deg k) * Y k) amps 1 / R := by
  simp only [p3d_curvature, dnum_lit, dnum_eqz_false, dnum_npow]
  rw [foldEnum_congr _ (fun acc k a => acc + a * hdeg (deg k) * Y k), foldEnum_add]
  · simp
  · intro acc k a
    by_cases h : a = 0 <;> simp [h, hdeg]

theorem axi_curvature_eq_spec (R : ℝ) (amps : List ℝ) (Y : ℕ → ℝ) (deg : ℕ → ℕ) :
    axi_curvature R amps Y deg = 1 / R + esum (fun l a => a * hdeg l * Y l) amps 1 / R := by
  simp only [axi_curvature, dnum_lit, dnum_eqz_false, dnum_npow]
  rw [foldEnum_congr _ (fun acc l a => acc + a * hdeg l * Y l), foldEnum_add]
  · simp
  · intro acc l a
    by_cases h : a = 0 <;> simp [h, hdeg]

/-- **Curvature of a perturbed shape scales inversely with its size** (the shape R·(1+u) is the
unit shape magnified by R), for any radius and any combination of modes -/
theorem curvature_scales_inverse (R : ℝ) (amps : List ℝ) (Y : ℕ → ℝ) (deg : ℕ → ℕ) :
    p3d_curvature R amps Y deg = p3d_curvature 1 amps Y deg / R ∧
    axi_curvature R amps Y deg = axi_curvature 1 amps Y deg / R := by
  rw [p3d_curvature_eq_spec, p3d_curvature_eq_spec, axi_curvature_eq_spec, axi_curvature_eq_spec]
  constructor <;> · simp; ring

theorem distance_scales (R : ℝ) (amps : List ℝ) (Y : ℕ → ℝ) (deg : ℕ → ℕ) (φ : ℝ) :
    p3d_distance R amps Y deg = R * p3d_distance 1 amps Y deg ∧
    p2d_distance R amps φ = R * p2d_distance 1 amps φ := by
  rw [(p3d_distance_eq_spec R amps Y deg).1, (p3d_distance_eq_spec 1 amps Y deg).1,
    p2d_distance_eq_spec, p2d_distance_eq_spec]
  constructor <;> ring

/-- **The approximate volume has no first-order term**: it is the sphere's volume -/
theorem volume_approx_eq_spec (R : ℝ) (amps : List ℝ) :
    p3d_volume_approx R amps = 4 / 3 * Real.pi * R ^ 3 ∧ axi_volume_approx R amps = 4 / 3 * Real.pi * R ^ 3 := by
  simp [p3d_volume_approx, axi_volume_approx, sphereVolume3]

/-! ### all amplitudes zero: everything reduces to the sphere / circle -/

theorem pairs_zero (amps : List ℝ) (h : ∀ a ∈ amps, a = 0) : ∀ ab ∈ pairs (0 : ℝ) amps, ab = (0, 0) := by
  fun_induction pairs (0 : ℝ) amps with
  | case1 => simp
  | case2 a =>
    intro ab hab
    simp only [List.mem_singleton] at hab
    rw [hab, h a List.mem_cons_self]
  | case3 a b rest ih =>
    intro ab hab
    simp only [List.mem_cons] at hab
    rcases hab with rfl | hab
    · rw [h a List.mem_cons_self, h b (List.mem_cons_of_mem _ List.mem_cons_self)]
    · exact ih (fun x hx => h x (List.mem_cons_of_mem _ (List.mem_cons_of_mem _ hx))) ab hab

/-- **With all amplitudes zero every quantity reduces to that of a sphere / circle** -/
theorem zero_amplitudes_reduce (R φ : ℝ) (amps : List ℝ) (Y : ℕ → ℝ) (deg : ℕ → ℕ) (h : ∀ a ∈ amps, a = 0) :
    p2d_distance R amps φ = R ∧ p2d_curvature R amps φ = 1 / R ∧ p2d_volume R amps = Real.pi * R ^ 2 ∧
    p3d_distance R amps Y deg = R ∧ axi_distance R amps Y deg = R ∧
    p3d_curvature R amps Y deg = 1 / R ∧ axi_curvature R amps Y deg = 1 / R := by
  have hp := pairs_zero amps h
  have e1 : esum (term2 φ) (pairs 0 amps) 1 = 0 :=
    esum_zero _ _ _ (fun n ab hab => by rw [hp ab hab]; simp [term2])
  have e2 : esum (fun n ab => ((n : ℝ) * n - 1) * term2 φ n ab) (pairs 0 amps) 1 = 0 :=
    esum_zero _ _ _ (fun n ab hab => by rw [hp ab hab]; simp [term2])
  have e3 : esum (fun k a => a * Y k) amps 1 = 0 := esum_zero _ _ _ (fun n a ha => by rw [h a ha]; simp)
  have e4 : esum (fun k a => a * hdeg (deg k) * Y k) amps 1 = 0 := esum_zero _ _ _ (fun n a ha => by rw [h a ha]; simp)
  have e5 : esum (fun l a => a * hdeg l * Y l) amps 1 = 0 := esum_zero _ _ _ (fun n a ha => by rw [h a ha]; simp)
  have e6 : (amps.map (· ^ 2)).sum = 0 := by
    apply List.sum_eq_zero
    intro x hx
    obtain ⟨y, hy, rfl⟩ := List.mem_map.mp hx
    rw [h y hy]; simp
  refine ⟨?_, ?_, ?_, ?_, ?_, ?_, ?_⟩
  · rw [p2d_distance_eq_spec, e1]; ring
  · rw [p2d_curvature_eq_spec, e2]; simp
  · rw [p2d_volume_eq_spec, e6]; ring
  · rw [(p3d_distance_eq_spec R amps Y deg).1, e3]; ring
  · rw [(p3d_distance_eq_spec R amps Y deg).2, e3]; ring
  · rw [p3d_curvature_eq_spec, e4]; simp
  · rw [axi_curvature_eq_spec, e5]; simp

/-! ### mode indexing (`spherical_index_lm`, `spherical_index_k`, `spherical_index_count*`) -/

/-- degree and order of mode `k`: `l = ⌊√k⌋`, `m = k − l(l+1)` -/
def lmOf (k : ℕ) : ℕ × ℤ := (Nat.sqrt k, (k : ℤ) - (Nat.sqrt k : ℤ) * ((Nat.sqrt k : ℤ) + 1))

/-- **Every mode index is a valid (degree, order) pair and maps back to itself** -/
theorem lm_roundtrip (k : ℕ) :
    -((lmOf k).1 : ℤ) ≤ (lmOf k).2 ∧ (lmOf k).2 ≤ (lmOf k).1 ∧
    ((lmOf k).1 : ℤ) * ((lmOf k).1 + 1) + (lmOf k).2 = k := by
  have h1 := Nat.sqrt_le k
  have h2 := Nat.lt_succ_sqrt k
  simp only [lmOf]
  have h1' : ((Nat.sqrt k : ℤ)) * (Nat.sqrt k : ℤ) ≤ k := by exact_mod_cast h1
  have h2' : (k : ℤ) < ((Nat.sqrt k : ℤ) + 1) * ((Nat.sqrt k : ℤ) + 1) := by exact_mod_cast h2
  refine ⟨by nlinarith, by nlinarith, by ring⟩

/-- conversely `(l, m) ↦ l(l+1) + m ↦ (l, m)` for `−l ≤ m ≤ l` -/
theorem k_roundtrip (l : ℕ) (m : ℤ) (h1 : -(l : ℤ) ≤ m) (h2 : m ≤ l) :
    ∃ k : ℕ, (k : ℤ) = (l : ℤ) * (l + 1) + m ∧ lmOf k = (l, m) := by
  have hk : 0 ≤ (l : ℤ) * (l + 1) + m := by nlinarith
  refine ⟨((l : ℤ) * (l + 1) + m).toNat, Int.toNat_of_nonneg hk, ?_⟩
  have hsq : Nat.sqrt (((l : ℤ) * (l + 1) + m).toNat) = l := by
    symm
    rw [Nat.eq_sqrt]
    constructor
    · have : ((l * l : ℕ) : ℤ) ≤ (l : ℤ) * (l + 1) + m := by push_cast; nlinarith
      exact_mod_cast (Int.le_toNat hk).mpr this
    · have : (l : ℤ) * (l + 1) + m < (((l + 1) * (l + 1) : ℕ) : ℤ) := by push_cast; nlinarith
      exact_mod_cast (Int.toNat_lt hk).mpr this
  simp only [lmOf, hsq, Int.toNat_of_nonneg hk, Prod.mk.injEq, true_and]
  ring

/-- the number of modes up to degree `l` is a perfect square, `(l+1)²` -/
theorem count_is_square (l : ℕ) : 1 + 2 * l + l * l = (l + 1) * (l + 1) := by ring

end DV.C13

/-! ### 2-D: the reported quantities ARE the geometry of the outline (Lemmas/Fourier.lean) -/

namespace DV.C13
open DV DV.Gen DV.Fourier Real

theorem esum_term2_eq_tp (φ : ℝ) (ps : List (ℝ × ℝ)) (s : ℕ) : esum (term2 φ) ps s = tp ps s φ := by
  induction ps generalizing s with
  | nil => rfl
  | cons p ps ih => simp only [esum, tp, term2, ih]

theorem esum_w_eq_tpw (w : ℕ → ℝ) (φ : ℝ) (ps : List (ℝ × ℝ)) (s : ℕ) :
    esum (fun n ab => w n * term2 φ n ab) ps s = tpw w ps s φ := by
  induction ps generalizing s with
  | nil => rfl
  | cons p ps ih =>
    have := ih (s + 1)
    simp only [esum, tpw, this]
    simp only [term2]

theorem sqsum_pairs : ∀ amps : List ℝ, sqsum (pairs 0 amps) = (amps.map (· ^ 2)).sum
  | [] => by simp [pairs, sqsum]
  | [a] => by simp [pairs, sqsum]
  | a :: b :: rest => by
    have ih := sqsum_pairs rest
    simp only [pairs, sqsum, List.map_cons, List.sum_cons] at ih ⊢
    rw [ih]; ring

theorem pairs_scale (c : ℝ) : ∀ amps : List ℝ,
    pairs 0 (amps.map (c * ·)) = (pairs 0 amps).map fun p => (c * p.1, c * p.2)
  | [] => by simp [pairs]
  | [a] => by simp [pairs]
  | a :: b :: rest => by
    have ih := pairs_scale c rest
    simp only [pairs, List.map_cons, ih]

/-- **The reported 2-D volume is the area enclosed by the interface-distance function**:
`π R² (1 + Σ a²/2) = ∫₀^{2π} ½ r(φ)² dφ` with `r = interface_distance`, for every mode count and all amplitudes. -/
theorem p2d_volume_is_area (R : ℝ) (amps : List ℝ) :
    p2d_volume R amps = ∫ φ in (0:ℝ)..(2 * π), (p2d_distance R amps φ) ^ 2 / 2 := by
  rw [p2d_volume_eq_spec]
  simp_rw [p2d_distance_eq_spec, esum_term2_eq_tp]
  rw [polar_area, sqsum_pairs]

/-- scaling all amplitudes by ε scales the perturbation -/
theorem p2d_distance_scaled (R ε φ : ℝ) (amps : List ℝ) :
    p2d_distance R (amps.map (ε * ·)) φ = R * (1 + ε * tp (pairs 0 amps) 1 φ) := by
  rw [p2d_distance_eq_spec, esum_term2_eq_tp, pairs_scale, tp_smul]

theorem p2d_curvature_scaled (R ε φ : ℝ) (amps : List ℝ) :
    p2d_curvature R (amps.map (ε * ·)) φ =
      1 / (R * (1 + ε * (tp (pairs 0 amps) 1 φ + tp (dmap 1 (dmap 1 (pairs 0 amps))) 1 φ))) := by
  rw [p2d_curvature_eq_spec, esum_w_eq_tpw, pairs_scale, tpw_smul, tp_add_dd]
  congr 2
  ring

/-- **The reported 2-D curvature agrees with the true curvature of the outline to first order in the
amplitudes**, for any radius, any number of modes and any direction.  With all amplitudes scaled by `ε`,
`r_ε = interface_distance` is the radius function of the outline `t ↦ centre + r_ε(t)(cos t, sin t)`
(`interface_position`), `r1`, `r2` are its first and second derivatives (proved), the true signed
curvature of that plane curve is `polarCurv r r' r''` (`polar_param_curv`), and

  * at `ε = 0` both the true and the reported curvature equal `1/R`;
  * their derivatives with respect to `ε` at `ε = 0` coincide. -/
theorem p2d_curvature_first_order (R φ : ℝ) (hR : 0 < R) (amps : List ℝ) :
    let r : ℝ → ℝ → ℝ := fun ε t => p2d_distance R (amps.map (ε * ·)) t
    let r1 : ℝ → ℝ → ℝ := fun ε t => R * (ε * tp (dmap 1 (pairs 0 amps)) 1 t)
    let r2 : ℝ → ℝ → ℝ := fun ε t => R * (ε * tp (dmap 1 (dmap 1 (pairs 0 amps))) 1 t)
    (∀ ε t, HasDerivAt (r ε) (r1 ε t) t) ∧ (∀ ε t, HasDerivAt (r1 ε) (r2 ε t) t) ∧
    polarCurv (r 0 φ) (r1 0 φ) (r2 0 φ) = 1 / R ∧ p2d_curvature R (amps.map ((0:ℝ) * ·)) φ = 1 / R ∧
    ∃ d, HasDerivAt (fun ε => polarCurv (r ε φ) (r1 ε φ) (r2 ε φ)) d 0 ∧
         HasDerivAt (fun ε => p2d_curvature R (amps.map (ε * ·)) φ) d 0 := by
  intro r r1 r2
  set ps := pairs 0 amps with hps
  have hr : ∀ ε t, r ε t = R * (1 + ε * tp ps 1 t) := fun ε t => p2d_distance_scaled R ε t amps
  refine ⟨?_, ?_, ?_, ?_, ?_⟩
  · intro ε t
    have h := ((tp_hasDerivAt ps 1 t).const_mul ε).const_add 1 |>.const_mul R
    have e : r ε = fun t => R * (1 + ε * tp ps 1 t) := funext (hr ε)
    rw [e]; exact h
  · intro ε t
    exact ((tp_hasDerivAt (dmap 1 ps) 1 t).const_mul ε).const_mul R
  · simp only [hr, r1, r2, polarCurv]
    simp only [zero_mul, add_zero, mul_one, mul_zero]
    rw [show R ^ 2 + 2 * 0 ^ 2 - 0 = R ^ 2 by ring, show R ^ 2 + (0:ℝ) ^ 2 = R ^ 2 by ring, Real.sqrt_sq hR.le]
    field_simp
  · rw [p2d_curvature_scaled]; simp
  · refine ⟨-(tp ps 1 φ + tp (dmap 1 (dmap 1 ps)) 1 φ) / R, ?_, ?_⟩
    · have := polarCurv_first_order R (tp ps 1 φ) (tp (dmap 1 ps) 1 φ) (tp (dmap 1 (dmap 1 ps)) 1 φ) hR
      have e : (fun ε => polarCurv (r ε φ) (r1 ε φ) (r2 ε φ)) = fun ε =>
          polarCurv (R * (1 + ε * tp ps 1 φ)) (R * (ε * tp (dmap 1 ps) 1 φ)) (R * (ε * tp (dmap 1 (dmap 1 ps)) 1 φ)) := by
        funext ε; simp only [hr, r1, r2, hps]
      rw [e]; exact this
    · have := codeCurv_first_order R (tp ps 1 φ) (tp (dmap 1 (dmap 1 ps)) 1 φ) hR
      have e : (fun ε => p2d_curvature R (amps.map (ε * ·)) φ) = fun ε =>
          1 / (R * (1 + ε * (tp ps 1 φ + tp (dmap 1 (dmap 1 ps)) 1 φ))) := by
        funext ε; exact p2d_curvature_scaled R ε φ amps
      rw [e]; exact this

end DV.C13
