/-
  C17 — Length scales are physical lengths: they scale with the grid, not the field.
  Theorems over `ℝ` about `Generated/Scales.lean` (the closed-form lines of `get_length_scale`,
  regenerated on every run, INCLUDING the default smoothing width of the peak method).
  Stretching the grid by `λ > 0` divides every wave number by `λ` (C16, `k_scales_inverse`) and leaves
  the structure-factor values unchanged; the smoother and the scalar maximiser of the peak method
  are parameters with a stated covariance contract.
-/
import DropletsVerif.Lemmas.RealInst
import DropletsVerif.Generated.Scales
import Mathlib.Tactic


namespace DV.C17
open DV DV.Gen

theorem lsum_eq (xs : List ℝ) : lsum xs = xs.sum := by
  unfold lsum
  have : ∀ (l : List ℝ) (a : ℝ), l.foldl (· + ·) a = a + l.sum := by
    intro l; induction l with
    | nil => simp
    | cons x l ih => intro a; simp [ih]; ring
  simp [this]

theorem ldot_eq (xs ys : List ℝ) : ldot xs ys = ((xs.zip ys).map fun p => p.1 * p.2).sum := by
  unfold ldot
  have : ∀ (l : List (ℝ × ℝ)) (a : ℝ), l.foldl (fun acc p => acc + p.1 * p.2) a = a + (l.map fun p => p.1 * p.2).sum := by
    intro l; induction l with
    | nil => simp
    | cons x l ih => intro a; simp [ih]; ring
  simp [this]

theorem ldot_scale_left (c : ℝ) (xs ys : List ℝ) : ldot (xs.map (c * ·)) ys = c * ldot xs ys := by
  rw [ldot_eq, ldot_eq]
  induction xs generalizing ys with
  | nil => simp
  | cons x xs ih =>
    cases ys with
    | nil => simp
    | cons y ys => simp [ih ys]; ring

theorem ldot_scale_right (c : ℝ) (xs ys : List ℝ) : ldot xs (ys.map (c * ·)) = c * ldot xs ys := by
  rw [ldot_eq, ldot_eq]
  induction xs generalizing ys with
  | nil => simp
  | cons x xs ih =>
    cases ys with
    | nil => simp
    | cons y ys => simp [ih ys]; ring

theorem lsum_scale (c : ℝ) (xs : List ℝ) : lsum (xs.map (c * ·)) = c * lsum xs := by
  rw [lsum_eq, lsum_eq]
  induction xs with
  | nil => simp
  | cons x xs ih => simp [ih]; ring

/-! ### moment-based method -/

/-- **Stretching the grid by λ stretches the moment-based length scale by λ** (wave numbers ÷ λ,
structure factor unchanged) -/
theorem mean_length_covariant (lam : ℝ) (hl : lam ≠ 0) (ks sfs : List ℝ) :
    mean_length (ks.map ((1 / lam) * ·)) sfs = lam * mean_length ks sfs := by
  simp only [mean_length, dnum_lit, dnum_pi]
  rw [ldot_scale_left]
  by_cases h : ldot ks sfs = 0
  · simp [h]
  · field_simp

/-- **Multiplying the structure factor (hence the field) by a non-zero constant changes nothing** -/
theorem mean_length_field_scale (c : ℝ) (hc : c ≠ 0) (ks sfs : List ℝ) :
    mean_length ks (sfs.map (c * ·)) = mean_length ks sfs := by
  simp only [mean_length, dnum_lit, dnum_pi]
  rw [ldot_scale_right, lsum_scale]
  by_cases h : ldot ks sfs = 0
  · simp [h]
  · field_simp

/-! ### peak-based method -/

/-- the length is `2π / k*` for the maximiser `k*`, so it stretches with the grid when `k* ↦ k*/λ` -/
theorem peak_length_covariant (lam x : ℝ) (hl : lam ≠ 0) (hx : x ≠ 0) :
    peak_length (x / lam) = lam * peak_length x := by
  simp only [peak_length, dnum_lit, dnum_pi]
  field_simp

/-- **The default smoothing width is a wave number**: it scales like `1/λ` when the grid is
stretched (before the repair of D10 it was `0.01·dx`, scaling like `λ`) -/
theorem default_sigma_covariant (lam L dx : ℝ) (hl : lam ≠ 0) (hL : L ≠ 0) :
    default_sigma (lam * L) (lam * dx) = default_sigma L dx / lam := by
  simp only [default_sigma, dnum_lit, dnum_pi]
  field_simp

/-- **If the smoother is covariant and the width passed to it scales like `1/λ`, the maximiser
scales like `1/λ`**: `S'` = smoothed structure factor on the stretched grid. -/
theorem max_covariant_if_sigma_covariant (lam : ℝ) (hl : 0 < lam) (S S' : ℝ → ℝ)
    (hcov : ∀ q, S' (q / lam) = S q) (k0 : ℝ) (hmax : ∀ q, S q ≤ S k0) :
    (∀ q, S' q ≤ S' (k0 / lam)) ∧ peak_length (k0 / lam) = lam * peak_length k0 ∨ k0 = 0 := by
  by_cases hk : k0 = 0
  · right; exact hk
  · left
    refine ⟨?_, peak_length_covariant lam k0 hl.ne' hk⟩
    intro q
    have h1 : S' q = S (q * lam) := by
      have := hcov (q * lam)
      rwa [mul_div_assoc, div_self hl.ne', mul_one] at this
    rw [h1, hcov k0]
    exact hmax _

/-! ### droplet-counting method -/

/-- **The d-th root of the volume per detected droplet** -/
theorem droplet_length_formula (vol : ℝ) (n d : ℕ) :
    droplet_length vol n d = (vol / n) ^ ((1 : ℝ) / d) := by
  simp [droplet_length]

/-- **Stretching all free axes by λ stretches it by λ** -/
theorem droplet_length_covariant (lam vol : ℝ) (n d : ℕ) (hl : 0 < lam) (hv : 0 ≤ vol) (hd : 0 < d) :
    droplet_length (lam ^ d * vol) n d = lam * droplet_length vol n d := by
  rw [droplet_length_formula, droplet_length_formula]
  have hd' : (d : ℝ) ≠ 0 := by exact_mod_cast hd.ne'
  have hvn : 0 ≤ vol / n := div_nonneg hv (Nat.cast_nonneg n)
  rw [mul_div_assoc, Real.mul_rpow (pow_nonneg hl.le d) hvn]
  congr 1
  rw [← Real.rpow_natCast, ← Real.rpow_mul hl.le, mul_one_div, div_self hd', Real.rpow_one]

/-- non-vacuity: two wave numbers, flat spectrum -/
example : mean_length ([1, 3] : List ℝ) [1, 1] = 2 * Real.pi * 2 / 4 := by
  simp [mean_length, lsum, ldot]; norm_num

end DV.C17
