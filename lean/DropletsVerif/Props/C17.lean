/-
  C17 — Length scales are physical lengths: they scale with the grid, not the field.
  Theorems over `ℝ` about `Generated/Scales.lean` (the closed-form lines of `get_length_scale`,
  regenerated on every run, INCLUDING the default smoothing width of the peak method).
  Stretching the grid by `λ > 0` divides every wave number by `λ` (C16, `k_scales_inverse`) and leaves
  the structure-factor values unchanged; the smoother and the scalar maximiser of the peak method
  are parameters with a stated covariance contract.
-/
import DropletsVerif.Lemmas.RealInst
import DropletsVerif.Generated.Scales
import Mathlib.Tactic
import Mathlib.Algebra.BigOperators.Field
import Mathlib.Algebra.Order.BigOperators.Ring.Finset


namespace DV.C17
open DV DV.Gen

theorem lsum_eq (xs : List ℝ) : lsum xs = xs.sum := by
  unfold lsum
  have : ∀ (l : List ℝ) (a : ℝ), l.foldl (· + ·) a = a + l.sum := by
    intro l; induction l with
    | nil => simp
    | cons x l ih => intro a; simp [ih]; ring
  simp [this]

theorem ldot_eq (xs ys : List ℝ) : ldot xs ys = ((xs.zip ys).map fun p => p.1 * p.2).sum := by
  unfold ldot
  have : ∀ (l : List (ℝ × ℝ)) (a : ℝ), l.foldl (fun acc p => acc + p.1 * p.2) a = a + (l.map fun p => p.1 * p.2).sum := by
    intro l; induction l with
    | nil => simp
    | cons x l ih => intro a; simp [ih]; ring
  simp [this]

theorem ldot_scale_left (c : ℝ) (xs ys : List ℝ) : ldot (xs.map (c * ·)) ys = c * ldot xs ys := by
  rw [ldot_eq, ldot_eq]
  induction xs generalizing ys with
  | nil => simp
  | cons x xs ih =>
    cases ys with
    | nil => simp
    | cons y ys => simp [ih ys]; ring

theorem ldot_scale_right (c : ℝ) (xs ys : List ℝ) : ldot xs (ys.map (c * ·)) = c * ldot xs ys := by
  rw [ldot_eq, ldot_eq]
  induction xs generalizing ys with
  | nil => simp
  | cons x xs ih =>
    cases ys with
    | nil => simp
    | cons y ys => simp [ih ys]; ring

theorem lsum_scale (c : ℝ) (xs : List ℝ) : lsum (xs.map (c * ·)) = c * lsum xs := by
  rw [lsum_eq, lsum_eq]
  induction xs with
  | nil => simp
  | cons x xs ih => simp [ih]; ring

/-! ### moment-based method -/

/-- **Stretching the grid by λ stretches the moment-based length scale by λ** (wave numbers ÷ λ,
structure factor unchanged) -/
theorem mean_length_covariant (lam : ℝ) (hl : lam ≠ 0) (ks sfs : List ℝ) :
    mean_length (ks.map ((1 / lam) * ·)) sfs = lam * mean_length ks sfs := by
  simp only [mean_length, dnum_lit, dnum_pi]
  rw [ldot_scale_left]
  by_cases h : ldot ks sfs = 0
  · simp [h]
  · field_simp

/-- **Multiplying the structure factor (hence the field) by a non-zero constant changes nothing** -/
theorem mean_length_field_scale (c : ℝ) (hc : c ≠ 0) (ks sfs : List ℝ) :
    mean_length ks (sfs.map (c * ·)) = mean_length ks sfs := by
  simp only [mean_length, dnum_lit, dnum_pi]
  rw [ldot_scale_right, lsum_scale]
  by_cases h : ldot ks sfs = 0
  · simp [h]
  · field_simp

/-- **For a spectrum carried by one shell of wave numbers** — a plane wave: by `DV.C16.plane_wave_support` its structure factor
vanishes off the two wave vectors `±k₀`, which by `DV.C16.fftRep_neg` have the same modulus — **the moment formula returns
exactly the wavelength `2π/|k₀|`**, whatever the amplitude, offset, phase and grid spacing.  This is a statement about the formula on the RAW
spectrum (`get_structure_factor(smoothing=None)`; checked on the real code for every generated plane wave).  `get_length_scale` applies the same
formula to the SMOOTHED spectrum (default smoothing `"auto"`), which spreads the two peaks: there the value is biased (observed 17.9 for a
wavelength of 16 cells, 16 cells per box) — the property claims plane-wave accuracy only for the peak-based and the counting method. -/
theorem mean_length_single_shell (k0 : ℝ) (ks sfs : List ℝ)
    (h : ∀ p ∈ ks.zip sfs, p.2 ≠ 0 → p.1 = k0) (hlen : sfs.length ≤ ks.length) (hs : lsum sfs ≠ 0) (hk : k0 ≠ 0) :
    mean_length ks sfs = 2 * Real.pi / k0 := by
  have key : ∀ (ks sfs : List ℝ), (∀ p ∈ ks.zip sfs, p.2 ≠ 0 → p.1 = k0) → sfs.length ≤ ks.length →
      ((ks.zip sfs).map fun p => p.1 * p.2).sum = k0 * sfs.sum := by
    intro ks
    induction ks with
    | nil => intro sfs _ hl; cases sfs with
      | nil => simp
      | cons y ys => simp at hl
    | cons x xs ih =>
      intro sfs h hl
      cases sfs with
      | nil => simp
      | cons y ys =>
        have hx : x * y = k0 * y := by
          by_cases hy : y = 0
          · simp [hy]
          · have hxk : x = k0 := h (x, y) (by simp) hy
            rw [hxk]
        have := ih ys (fun p hp => h p (by simp [hp])) (by simpa using hl)
        simp only [List.zip_cons_cons, List.map_cons, List.sum_cons, this, hx]; ring
  simp only [mean_length, dnum_lit, dnum_pi]
  rw [ldot_eq, key ks sfs h hlen, ← lsum_eq]
  push_cast
  field_simp

/-- non-vacuity: two peaks at |k| = 3 among four wave numbers -/
example : mean_length ([1, 3, 3, 5] : List ℝ) [0, 2, 2, 0] = 2 * Real.pi / 3 :=
  mean_length_single_shell 3 _ _ (by simp) (by simp) (by simp [lsum]) (by norm_num)

/-! ### peak-based method -/

/-- the length is `2π / k*` for the maximiser `k*`, so it stretches with the grid when `k* ↦ k*/λ` -/
theorem peak_length_covariant (lam x : ℝ) (hl : lam ≠ 0) (hx : x ≠ 0) :
    peak_length (x / lam) = lam * peak_length x := by
  simp only [peak_length, dnum_lit, dnum_pi]
  field_simp

/-- **The default smoothing width is a wave number**: it scales like `1/λ` when the grid is
stretched (before the repair of D10 it was `0.01·dx`, scaling like `λ`) -/
theorem default_sigma_covariant (lam L dx : ℝ) (hl : lam ≠ 0) (hL : L ≠ 0) :
    default_sigma (lam * L) (lam * dx) = default_sigma L dx / lam := by
  simp only [default_sigma, dnum_lit, dnum_pi]
  field_simp

/-- **If the smoother is covariant and the width passed to it scales like `1/λ`, the maximiser
scales like `1/λ`**: `S'` = smoothed structure factor on the stretched grid. -/
theorem max_covariant_if_sigma_covariant (lam : ℝ) (hl : 0 < lam) (S S' : ℝ → ℝ)
    (hcov : ∀ q, S' (q / lam) = S q) (k0 : ℝ) (hmax : ∀ q, S q ≤ S k0) :
    (∀ q, S' q ≤ S' (k0 / lam)) ∧ peak_length (k0 / lam) = lam * peak_length k0 ∨ k0 = 0 := by
  by_cases hk : k0 = 0
  · right; exact hk
  · left
    refine ⟨?_, peak_length_covariant lam k0 hl.ne' hk⟩
    intro q
    have h1 : S' q = S (q * lam) := by
      have := hcov (q * lam)
      rwa [mul_div_assoc, div_self hl.ne', mul_one] at this
    rw [h1, hcov k0]
    exact hmax _

section peak
open Finset BigOperators
/-- the kernel smoother of the peak method (`pde.tools.math.SmoothData1D.__call__`): weights `K(q − k_i)`, normalised when their sum is
positive (otherwise they are all zero and so is the result) -/
noncomputable def nwSmooth {ι : Type} [Fintype ι] (K : ℝ → ℝ) (k s : ι → ℝ) (q : ℝ) : ℝ :=
  if 0 < ∑ i, K (q - k i) then (∑ i, s i * K (q - k i)) / ∑ i, K (q - k i) else 0

/-- a weighted average that reaches the level `v > 0` has a contributing sample at that level: wherever the smoothed structure factor is at
least `v`, a raw sample with value at least `v` lies within the reach `ρ` of the kernel -/
theorem nwSmooth_ge_has_sample {ι : Type} [Fintype ι] (K : ℝ → ℝ) (hK : ∀ x, 0 ≤ K x) (ρ : ℝ) (hsupp : ∀ x, ρ ≤ |x| → K x = 0)
    (k s : ι → ℝ) (q v : ℝ) (hv : 0 < v) (h : v ≤ nwSmooth K k s q) :
    ∃ i, |q - k i| < ρ ∧ v ≤ s i := by
  unfold nwSmooth at h
  split_ifs at h with hw
  · by_contra hno
    push Not at hno
    have hterm : ∀ i, s i * K (q - k i) ≤ v * K (q - k i) := by
      intro i
      by_cases hr : |q - k i| < ρ
      · exact mul_le_mul_of_nonneg_right (hno i hr).le (hK _)
      · rw [hsupp _ (not_lt.mp hr)]; simp
    have hstrict : ∑ i, s i * K (q - k i) < ∑ i, v * K (q - k i) := by
      obtain ⟨j, -, hj⟩ := Finset.exists_lt_of_sum_lt (s := Finset.univ) (f := fun _ => (0 : ℝ)) (g := fun i => K (q - k i)) (by simpa using hw)
      apply Finset.sum_lt_sum (fun i _ => hterm i)
      refine ⟨j, Finset.mem_univ j, ?_⟩
      have hr : |q - k j| < ρ := by
        by_contra hr
        rw [hsupp _ (not_lt.mp hr)] at hj; exact lt_irrefl _ hj
      exact mul_lt_mul_of_pos_right (hno j hr) hj
    rw [← Finset.mul_sum] at hstrict
    have : (∑ i, s i * K (q - k i)) / ∑ i, K (q - k i) < v := by
      rw [div_lt_iff₀ hw]; exact hstrict
    linarith
  · linarith

/-- **The peak of a plane wave is found within the reach of the kernel.**  Raw spectrum: the value `s₀ > 0` on the shell `|k| = k₀` and
below `s₀` everywhere else except at the prepended zero mode (`add_zero=True`: the pair (0, 1)); `x` any point that the maximiser returns with
`S(x) ≥ s₀ = S(k₀)` (it does not return a point worse than the centre of its bracket) and away from zero.  Then `|x − k₀| < ρ`: with the default
smoothing (σ = 10⁻³ Fourier bins; in double precision the Gaussian weights vanish beyond 38.6 σ) that is 0.04 bins — well within the half bin the
property asks for, for any grid spacing. -/
theorem peak_plane_wave_within_reach {ι : Type} [Fintype ι] (K : ℝ → ℝ) (hK : ∀ x, 0 ≤ K x) (ρ : ℝ) (hsupp : ∀ x, ρ ≤ |x| → K x = 0)
    (k s : ι → ℝ) (k0 s0 : ℝ) (hs0 : 0 < s0) (hshell : ∀ i, s0 ≤ s i → k i = k0 ∨ k i = 0)
    (x : ℝ) (hx : ρ ≤ x) (hbest : s0 ≤ nwSmooth K k s x) : |x - k0| < ρ := by
  obtain ⟨i, hi, hsi⟩ := nwSmooth_ge_has_sample K hK ρ hsupp k s x s0 hs0 hbest
  rcases hshell i hsi with h | h
  · rwa [h] at hi
  · rw [h, sub_zero] at hi
    have : |x| = x := abs_of_nonneg (le_trans (by
      by_contra hneg; push Not at hneg
      have := hsupp 0 (by simpa using hneg.le)
      have h0 := hi; rw [abs_lt] at h0; linarith) hx)
    rw [this] at hi; linarith

/-- non-vacuity: samples (0, 1), (5, ½), (6, 0) — zero mode, plane-wave shell, a neighbour — box kernel of reach ¼: the smoothed value at 5.1
is the shell's ½, and the theorem places 5.1 within ¼ of the shell -/
example : |(5.1 : ℝ) - 5| < 1 / 4 := by
  refine peak_plane_wave_within_reach (ι := Fin 3) (fun x => if |x| < 1 / 4 then 1 else 0) (fun x => by positivity) (1 / 4)
    (fun x hx => if_neg (not_lt.mpr hx)) ![0, 5, 6] ![1, 1 / 2, 0] 5 (1 / 2) (by norm_num) ?_ 5.1 (by norm_num) ?_
  · intro i; fin_cases i <;> simp <;> norm_num
  · have h0 : ¬ |(5.1 : ℝ) - 0| < 1 / 4 := by rw [abs_lt]; norm_num
    have h1 : |(5.1 : ℝ) - 5| < 1 / 4 := by rw [abs_lt]; norm_num
    have h2 : ¬ |(5.1 : ℝ) - 6| < 1 / 4 := by rw [abs_lt]; norm_num
    have e0 : (![0, 5, 6] : Fin 3 → ℝ) 0 = 0 := rfl
    have e1 : (![0, 5, 6] : Fin 3 → ℝ) 1 = 5 := rfl
    have e2 : (![0, 5, 6] : Fin 3 → ℝ) 2 = 6 := rfl
    have f0 : (![1, 1 / 2, 0] : Fin 3 → ℝ) 0 = 1 := rfl
    have f1 : (![1, 1 / 2, 0] : Fin 3 → ℝ) 1 = 1 / 2 := rfl
    have f2 : (![1, 1 / 2, 0] : Fin 3 → ℝ) 2 = 0 := rfl
    simp only [nwSmooth, Fin.sum_univ_three, e0, e1, e2, f0, f1, f2, if_neg h0, if_pos h1, if_neg h2]
    norm_num

/-- the Gaussian kernel of `SmoothData1D`: `exp(−x² / (2σ²))` (written as the code does: `exp(−(0.5 σ⁻²) x²)`) -/
noncomputable def gauss (σ x : ℝ) : ℝ := Real.exp (-(0.5 * (σ ^ 2)⁻¹) * x ^ 2)

/-- **The smoother is covariant under stretching the grid**: wave numbers, evaluation point and smoothing width all divided by `λ` give the
same smoothed value — so the covariance hypothesis `hcov` of `max_covariant_if_sigma_covariant` is a theorem about `SmoothData1D`'s formula,
not an assumption -/
theorem nwSmooth_gauss_covariant {ι : Type} [Fintype ι] (lam σ : ℝ) (hl : lam ≠ 0) (k s : ι → ℝ) (q : ℝ) :
    nwSmooth (gauss (σ / lam)) (fun i => k i / lam) s (q / lam) = nwSmooth (gauss σ) k s q := by
  have hK : ∀ i, gauss (σ / lam) (q / lam - k i / lam) = gauss σ (q - k i) := by
    intro i
    unfold gauss
    congr 1
    by_cases hσ : σ = 0
    · simp [hσ]
    · field_simp
  unfold nwSmooth
  simp only [hK]

/-- with the DEFAULT smoothing width (regenerated `default_sigma`, a wave number since the repair of D10) the smoothed structure factor of the
stretched grid is the original one read at `q/λ` -/
theorem peak_smoothing_default_covariant {ι : Type} [Fintype ι] (lam L dx : ℝ) (hl : lam ≠ 0) (hL : L ≠ 0) (k s : ι → ℝ) (q : ℝ) :
    nwSmooth (gauss (default_sigma (lam * L) (lam * dx))) (fun i => k i / lam) s (q / lam)
      = nwSmooth (gauss (default_sigma L dx)) k s q := by
  rw [default_sigma_covariant lam L dx hl hL]
  exact nwSmooth_gauss_covariant lam _ hl k s q

/-- multiplying the structure factor by a constant multiplies the smoothed curve by it: for `c > 0` the maximiser does not move -/
theorem nwSmooth_scale {ι : Type} [Fintype ι] (K : ℝ → ℝ) (c : ℝ) (k s : ι → ℝ) (q : ℝ) :
    nwSmooth K k (fun i => c * s i) q = c * nwSmooth K k s q := by
  unfold nwSmooth
  split_ifs
  · rw [← mul_div_assoc, Finset.mul_sum]; congr 1; apply Finset.sum_congr rfl; intro i _; ring
  · simp

/-- **The peak method stretches with the grid** (default smoothing, any spectrum): if `k₀` maximises the smoothed structure factor of the
original grid, `k₀/λ` maximises that of the grid stretched by `λ > 0`, and the reported length is `λ` times the original one -/
theorem peak_method_covariant {ι : Type} [Fintype ι] (lam L dx : ℝ) (hl : 0 < lam) (hL : L ≠ 0) (k s : ι → ℝ) (k0 : ℝ) (hk0 : k0 ≠ 0)
    (hmax : ∀ q, nwSmooth (gauss (default_sigma L dx)) k s q ≤ nwSmooth (gauss (default_sigma L dx)) k s k0) :
    (∀ q, nwSmooth (gauss (default_sigma (lam * L) (lam * dx))) (fun i => k i / lam) s q
        ≤ nwSmooth (gauss (default_sigma (lam * L) (lam * dx))) (fun i => k i / lam) s (k0 / lam)) ∧
    peak_length (k0 / lam) = lam * peak_length k0 := by
  have h := max_covariant_if_sigma_covariant lam hl (nwSmooth (gauss (default_sigma L dx)) k s)
    (nwSmooth (gauss (default_sigma (lam * L) (lam * dx))) (fun i => k i / lam) s)
    (fun q => peak_smoothing_default_covariant lam L dx hl.ne' hL k s q) k0 hmax
  rcases h with h | h
  · exact h
  · exact absurd h hk0

end peak

/-! ### droplet-counting method -/

/-- **The d-th root of the volume per detected droplet** -/
theorem droplet_length_formula (vol : ℝ) (n d : ℕ) :
    droplet_length vol n d = (vol / n) ^ ((1 : ℝ) / d) := by
  simp [droplet_length]

/-- **Stretching all free axes by λ stretches it by λ** -/
theorem droplet_length_covariant (lam vol : ℝ) (n d : ℕ) (hl : 0 < lam) (hv : 0 ≤ vol) (hd : 0 < d) :
    droplet_length (lam ^ d * vol) n d = lam * droplet_length vol n d := by
  rw [droplet_length_formula, droplet_length_formula]
  have hd' : (d : ℝ) ≠ 0 := by exact_mod_cast hd.ne'
  have hvn : 0 ≤ vol / n := div_nonneg hv (Nat.cast_nonneg n)
  rw [mul_div_assoc, Real.mul_rpow (pow_nonneg hl.le d) hvn]
  congr 1
  rw [← Real.rpow_natCast, ← Real.rpow_mul hl.le, mul_one_div, div_self hd', Real.rpow_one]

/-- non-vacuity: two wave numbers, flat spectrum -/
example : mean_length ([1, 3] : List ℝ) [1, 1] = 2 * Real.pi * 2 / 4 := by
  simp [mean_length, lsum, ldot]; norm_num

end DV.C17
