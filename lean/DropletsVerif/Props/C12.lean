/-
  C12 — Sphere volume, surface and radius conversions are mutually consistent.
  All statements are about the definitions REGENERATED from droplets/tools/spherical.py,
  droplets/droplets.py and pde.grids.spherical (Generated/Spherical.lean), read at `ℝ`.
-/
import DropletsVerif.Lemmas.RealInst
import DropletsVerif.Generated.Spherical
import Mathlib.Tactic
import Mathlib.Analysis.Calculus.Deriv.Pow
import Mathlib.Analysis.Calculus.Deriv.Mul

namespace DV.C12
open DV DV.Gen

/-- the dimensions the library supports -/
def Dim (d : Nat) : Prop := d = 1 ∨ d = 2 ∨ d = 3

/-! ### all variants of each conversion are the same function (every input, every `dim`,
including the error branch) -/

theorem variants_agree_radius_from_volume (v : ℝ) (d : Nat) :
    radius_from_volume_compiled d v = radius_from_volume v d ∧
    radius_from_volume_nd v d = radius_from_volume v d := by
  by_cases h1 : d = 1 <;> by_cases h2 : d = 2 <;> by_cases h3 : d = 3 <;>
    simp [radius_from_volume_compiled, radius_from_volume, radius_from_volume_nd, h1, h2, h3]

theorem variants_agree_volume_from_radius (r : ℝ) (d : Nat) :
    volume_from_radius_compiled d r = volume_from_radius_pde r d ∧
    volume_from_radius_nd r d = volume_from_radius_pde r d := by
  by_cases h1 : d = 1 <;> by_cases h2 : d = 2 <;> by_cases h3 : d = 3 <;>
    simp [volume_from_radius_compiled, volume_from_radius_pde, volume_from_radius_nd, h1, h2, h3] <;>
    ring_nf <;> simp

theorem variants_agree_surface_from_radius (r : ℝ) (d : Nat) :
    surface_from_radius_compiled d r = surface_from_radius r d := by
  by_cases h1 : d = 1 <;> by_cases h2 : d = 2 <;> by_cases h3 : d = 3 <;>
    simp [surface_from_radius_compiled, surface_from_radius, h1, h2, h3]

/-! ### round trips -/

theorem radius_volume_roundtrip (d : Nat) (hd : Dim d) (r : ℝ) (hr : 0 ≤ r) :
    (volume_from_radius_pde r d).bind (fun v => radius_from_volume v d) = .ok r := by
  rcases hd with rfl | rfl | rfl
  · simp [volume_from_radius_pde, radius_from_volume, Except.bind]
  · simp [volume_from_radius_pde, radius_from_volume, Except.bind]
    exact Real.sqrt_sq hr
  · simp [volume_from_radius_pde, radius_from_volume, Except.bind]
    have h : 3 * (4 / 3 * Real.pi * r ^ 3) / (4 * Real.pi) = r ^ (3 : ℕ) := by
      field_simp
    rw [h, ← Real.rpow_natCast, ← Real.rpow_mul hr]
    norm_num

theorem volume_radius_roundtrip (d : Nat) (hd : Dim d) (v : ℝ) (hv : 0 ≤ v) :
    (radius_from_volume v d).bind (fun r => volume_from_radius_pde r d) = .ok v := by
  rcases hd with rfl | rfl | rfl
  · simp [volume_from_radius_pde, radius_from_volume, Except.bind]
    ring
  · simp [volume_from_radius_pde, radius_from_volume, Except.bind]
    rw [Real.sq_sqrt (div_nonneg hv Real.pi_pos.le)]
    field_simp
  · simp [volume_from_radius_pde, radius_from_volume, Except.bind]
    have hx : 0 ≤ 3 * v / (4 * Real.pi) := by positivity
    rw [← Real.rpow_natCast, ← Real.rpow_mul hx]
    norm_num
    field_simp

theorem radius_surface_roundtrip (d : Nat) (hd : d = 2 ∨ d = 3) (r : ℝ) (hr : 0 ≤ r) :
    (surface_from_radius r d).bind (fun s => radius_from_surface s d) = .ok r := by
  rcases hd with rfl | rfl
  · simp [surface_from_radius, radius_from_surface, Except.bind]
  · simp [surface_from_radius, radius_from_surface, Except.bind]
    exact Real.sqrt_sq hr

theorem surface_radius_roundtrip (d : Nat) (hd : d = 2 ∨ d = 3) (s : ℝ) (hs : 0 ≤ s) :
    (radius_from_surface s d).bind (fun r => surface_from_radius r d) = .ok s := by
  rcases hd with rfl | rfl
  · simp [surface_from_radius, radius_from_surface, Except.bind]
    field_simp
  · simp [surface_from_radius, radius_from_surface, Except.bind]
    rw [Real.sq_sqrt (by positivity)]
    field_simp

theorem surface_dim1_const (r : ℝ) : surface_from_radius r 1 = .ok 2 := by
  simp [surface_from_radius]

/-! ### the surface area is the derivative of the volume -/

theorem surface_is_deriv (d : Nat) (hd : Dim d) :
    ∃ V S : ℝ → ℝ, (∀ x, volume_from_radius_pde x d = .ok (V x)) ∧
      (∀ x, surface_from_radius x d = .ok (S x)) ∧ ∀ x, HasDerivAt V (S x) x := by
  rcases hd with rfl | rfl | rfl
  · refine ⟨fun x => 2 * x, fun _ => 2, ?_, ?_, ?_⟩
    · intro x; simp [volume_from_radius_pde]
    · intro x; simp [surface_from_radius]
    · intro x; simpa using (hasDerivAt_id x).const_mul (2 : ℝ)
  · refine ⟨fun x => Real.pi * x ^ 2, fun x => 2 * Real.pi * x, ?_, ?_, ?_⟩
    · intro x; simp [volume_from_radius_pde]
    · intro x; simp [surface_from_radius]
    · intro x
      have := ((hasDerivAt_pow 2 x).const_mul Real.pi)
      simpa [mul_comm, mul_left_comm, mul_assoc] using this
  · refine ⟨fun x => 4 / 3 * Real.pi * x ^ 3, fun x => 4 * Real.pi * x ^ 2, ?_, ?_, ?_⟩
    · intro x; simp [volume_from_radius_pde]
    · intro x; simp [surface_from_radius]
    · intro x
      have := ((hasDerivAt_pow 3 x).const_mul (4 / 3 * Real.pi))
      have e : 4 / 3 * Real.pi * ((3 : ℕ) * x ^ (3 - 1)) = 4 * Real.pi * x ^ 2 := by
        norm_num; ring
      rw [e] at this; exact this

/-! ### droplet properties follow from radius and position by these formulas -/

theorem droplet_volume_setter_getter (d : Nat) (hd : Dim d) (v : ℝ) (hv : 0 ≤ v) :
    (droplet_set_volume v d).bind (fun r => droplet_volume r d) = .ok v := by
  simpa [droplet_set_volume, droplet_volume] using volume_radius_roundtrip d hd v hv

theorem droplet_volume_eq (r : ℝ) (d : Nat) : droplet_volume r d = volume_from_radius_pde r d := by
  simp [droplet_volume]

theorem droplet_surface_eq (r : ℝ) (d : Nat) : droplet_surface_area r d = surface_from_radius r d := by
  simp [droplet_surface_area]

theorem droplet_curvature_eq (r : ℝ) : droplet_curvature r = .ok (1 / r) := by
  simp [droplet_curvature]

theorem droplet_bbox_eq (p r : ℝ) : droplet_bbox p r = .ok (p - r, p + r) := by
  simp [droplet_bbox]

/-! ### error branches -/

theorem unsupported_dim (x : ℝ) (d : Nat) (hd : ¬ Dim d) :
    radius_from_volume x d = .error "NotImplementedError" ∧
    volume_from_radius_pde x d = .error "NotImplementedError" ∧
    surface_from_radius x d = .error "NotImplementedError" := by
  have h1 : d ≠ 1 := fun h => hd (Or.inl h)
  have h2 : d ≠ 2 := fun h => hd (Or.inr (Or.inl h))
  have h3 : d ≠ 3 := fun h => hd (Or.inr (Or.inr h))
  simp [radius_from_volume, volume_from_radius_pde, surface_from_radius, h1, h2, h3]

theorem radius_from_surface_dim1 (s : ℝ) : radius_from_surface s 1 = .error "RuntimeError" := by
  simp [radius_from_surface]

/-- non-vacuity: the hypotheses of the round trips are satisfiable by a non-trivial input -/
example : Dim 3 ∧ (0 : ℝ) ≤ 2.5 := ⟨Or.inr (Or.inr rfl), by norm_num⟩

end DV.C12
