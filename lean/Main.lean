import DropletsVerif.Basic
def main : IO Unit := IO.println DV.hello
