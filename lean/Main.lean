/- Line-protocol driver: one request per line, one answer per line.  Imports only the
   import-free models and generated definitions, so it is compiled to a native executable. -/
import DropletsVerif.Driver.C12
import DropletsVerif.Driver.C11
import DropletsVerif.Driver.C10
import DropletsVerif.Driver.C06
import DropletsVerif.Driver.C02
import DropletsVerif.Driver.C18
import DropletsVerif.Driver.C19
import DropletsVerif.Driver.C14
import DropletsVerif.Driver.C08
import DropletsVerif.Driver.C20
import DropletsVerif.Driver.C03
import DropletsVerif.Driver.C13
import DropletsVerif.Driver.C16
import DropletsVerif.Driver.C17
import DropletsVerif.Driver.C04
import DropletsVerif.Driver.C09
import DropletsVerif.Driver.C05

open DV.Drv

def dispatch (line : String) : String :=
  match (line.splitOn " ").filter (· ≠ "") with
  | "c12" :: args => handleC12 args
  | "c11" :: args => handleC11 args
  | "c10" :: args => handleC10 args
  | "c06" :: args => handleC06 args
  | "c02" :: args => handleC02 args
  | "c18" :: args => handleC18 args
  | "c19" :: args => handleC19 args
  | "c14" :: args => handleC14 args
  | "c08" :: args => handleC08 args
  | "c20" :: args => handleC20 args
  | "c03" :: args => handleC03 args
  | "c13" :: args => handleC13 args
  | "c16" :: args => handleC16 args
  | "c17" :: args => handleC17 args
  | "c04" :: args => handleC04 args
  | "c09" :: args => handleC09 args
  | "c05" :: args => handleC05 args
  | "c15" :: args => handleC15 args
  | _ => "bad-op"

partial def loop (h : IO.FS.Stream) (out : IO.FS.Stream) : IO Unit := do
  let line ← h.getLine
  if line.isEmpty then return ()
  let l := if line.endsWith "\n" then (line.dropEnd 1).toString else line
  out.putStrLn (dispatch l)
  loop h out

def main : IO Unit := do
  let out ← IO.getStdout
  loop (← IO.getStdin) out
  out.flush
